#!/bin/sh
# usage: tools/tryseed.sh <patch> <prop>...   -- applies the patch to /repo, runs the quick checks, undoes the patch
P=$1; shift
cd /repo && [ -z "$(git status --porcelain)" ] || { echo "/repo has uncommitted changes: commit them first"; exit 2; }; git apply --check "$P" || { echo "patch does not apply"; exit 2; }
git -C /repo apply "$P"
for p in "$@"; do
  (cd /verif && ./bin/govc check $p --tier quick > /tmp/seedrun_$p.log 2>&1; echo "$p exit=$? $(grep -c '^VIOLATION' /tmp/seedrun_$p.log) violations"; grep '^VIOLATION' /tmp/seedrun_$p.log | cut -c1-260 | head -4)
done
git -C /repo checkout -- . 
git -C /repo status --short | head -3
