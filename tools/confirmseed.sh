#!/bin/sh
# usage: tools/confirmseed.sh <id> <patch> <demo_test.go> <pkgdir>  -- confirms in a scratch worktree: suite passes with the patch,
# demo fails with it and passes without it. Prints a summary line; leaves nothing behind.
ID=$1; PATCH=$2; DEMO=$3; PKG=$4
WT=/tmp/sv_$ID
export GOFLAGS= GOPROXY=off GOSUMDB=off GOTOOLCHAIN=local
git -C /repo worktree add -f --detach $WT HEAD >/dev/null 2>&1
cd $WT || exit 2
MODDIR=.
case "$PKG" in api/*) MODDIR=api;; esac
run() { (cd $WT/$MODDIR && go test -vet=off -count=1 "$@" 2>&1); }
git apply "$PATCH" || { echo "$ID: patch does not apply"; exit 2; }
go build ./... >/dev/null 2>&1 && (cd api && go build ./... >/dev/null 2>&1); BUILD=$?
SUITE=$( (go test -vet=off -count=1 ./controllers/extendeddaemonset/... ./controllers/extendeddaemonsetreplicaset/... ./controllers/extendeddaemonsetsetting/... ./controllers/podtemplate/... ./pkg/... 2>&1; cd api && go test -vet=off -count=1 ./... 2>&1) | grep -c "^FAIL\|^--- FAIL")
cp "$DEMO" $WT/$PKG/zz_seed_demo_test.go
REL=./${PKG#api/}; [ "$MODDIR" = "." ] && REL=./$PKG
WITH=$(run -run '^TestSeedDemo$' $REL | tail -1 | cut -c1-60)
git apply -R "$PATCH"
WITHOUT=$(run -run '^TestSeedDemo$' $REL | tail -1 | cut -c1-60)
echo "$ID: build=$BUILD suite_failures_with_patch=$SUITE demo_with=[$WITH] demo_without=[$WITHOUT]"
cd / && git -C /repo worktree remove --force $WT
