#!/usr/bin/env python3
"""Restore ledger entries that a contended refresh dropped.
usage: tools/mergeledger.py <old-commit> <PROP>...
For each property: an obligation name that the ledger at <old-commit> listed, that the current ledger lacks, and that the evidence file
written by the latest run of `govc check <PROP>` reports as proved, is put back. Nothing else is added. (Equivalent to what
`govc ledger --update <PROP>` writes on a quiet machine; use that instead whenever there is time.)"""
import json, subprocess, sys
old = sys.argv[1]
for p in sys.argv[2:]:
    cur = json.load(open(f'/verif/ledger/{p}.json'))
    prev = json.loads(subprocess.run(['git', '-C', '/verif', 'show', f'{old}:ledger/{p}.json'], capture_output=True, text=True).stdout)
    ev = json.load(open(f'/verif/evidence/{p}.json'))
    if ev.get('violations'):
        print(p, 'evidence reports violations: not merged'); continue
    proved = set()
    def walk(x):
        if isinstance(x, dict):
            if x.get('status') == 'proved' and 'name' in x: proved.add(x['name'])
            for v in x.values(): walk(v)
        elif isinstance(x, list):
            for v in x: walk(v)
    walk(ev)
    have = set(cur['proved'])
    add = sorted(n for n in prev['proved'] if n not in have and n in proved)
    cur['proved'] = sorted(have | set(add))
    json.dump(cur, open(f'/verif/ledger/{p}.json', 'w'), indent=1)
    print(p, 'restored', len(add), add)
