#!/usr/bin/env python3
"""Regenerates /verif/MANIFEST.json from the table below (kept here so the manifest stays valid and in sync)."""
import json, subprocess, os

BASELINE = json.load(open('/root/.vp/BASELINE.json'))['cmd']

CLAIMED = {
 # id: (level text, level_note, design_ref)
 "C05": ("Contract proof on the real selectCurrentReplicaSet and the predicates it calls: the postcondition transcribed from the promotion rule (only-if direction, plus adoption when the active replica set is missing, failed/manual/paused never promoted by time) is discharged for all inputs by SMT from VCs generated over go/ssa of the working tree. This is the right level because the property is a statement about one call for every combination of strategy, timestamps, annotations and conditions.",
         "Assumes the external contracts of time.Time/metav1.Time (integer nanoseconds, no saturation) and ObjectMeta getters; assumes the ExtendedDaemonSet passed validation (manual mode has no duration) and ValidationMode is auto or manual (CRD enum). Not claimed: the data flow from the selector's result to status.activeReplicaSet inside updateInstanceWithCurrentRS, and the ordering of replica-set sync vs ExtendedDaemonSet reconcile (the contract quantifies over every state either order can produce).",
         "DESIGN.md 5 C05"),
}

NOT_APPLICABLE = {
 "C02": "liveness/convergence over unboundedly many reconciles of several controllers plus kubelet; no per-call contract can state or decide 'eventually' (DESIGN.md 7)",
 "C17": "data-race freedom and error fan-in through goroutines/channels; a sequential VC generator over go/ssa has no model of interleavings, and this family excludes the race detector (DESIGN.md 7)",
}
PENDING = "contracts for this property are not yet discharged by the engine at this commit; not claimed until they are (see DESIGN.md 8, build order)"

def main():
    props = [json.loads(l)['id'] for l in open('/verif/properties.jsonl')]
    hooks = subprocess.run(['git','-C','/repo','log','--format=%h %s'],capture_output=True,text=True).stdout.splitlines()
    hook_commits = [l.split()[0] for l in hooks if l.split(' ',1)[1].startswith('verif:')]
    checks = []
    for p in props:
        if p not in CLAIMED: continue
        text, note, ref = CLAIMED[p]
        checks.append({
            "property_id": p,
            "quick_cmd": f"./bin/govc check {p} --tier quick",
            "thorough_cmd": f"./bin/govc check {p} --tier thorough",
            "evidence_file": f"/verif/evidence/{p}.json",
            "replay_cmd_template": "./bin/govc replay {path}",
            "engine": "govc",
            "level_claimed": {"category": "proof", "text": text, "design_ref": ref},
            "level_note": note,
            "technique": "contract-based deductive verification: weakest-precondition VCs generated over go/ssa of the real functions from //@ contracts, discharged by z3/cvc5; counterexamples replayed on the real code by an in-package overlay test",
        })
    na = []
    for p in props:
        if p in CLAIMED: continue
        na.append({"property_id": p, "reason": NOT_APPLICABLE.get(p, PENDING)})
    m = {
        "version": 1,
        "setup_cmd": "cd /verif/engine && GOFLAGS=-mod=vendor GOPROXY=off GOSUMDB=off GOTOOLCHAIN=local go build -o /verif/bin/govc ./cmd/govc && /verif/bin/govc selfcheck",
        "hooks": {
            "guard": "verif",
            "enable": "-tags verif (the engine loads /repo with this tag; the guarded files are comment-only zz_verif_contracts.go files holding the //@ contracts)",
            "baseline_off_cmd": BASELINE,
            "source_commits": hook_commits,
            "add_only": True,
        },
        "engines": [{"name": "govc", "path": "/verif/engine", "serves_properties": sorted(CLAIMED), "kind_free_text": "self-built deductive verifier for Go: contract parser, VC generation by symbolic execution of go/ssa with loop invariants and modular calls, SMT discharge (z3 4.8.12, z3 5.1.0, cvc5 1.0 raced), model replay"}],
        "checks": checks,
        "not_applicable": na,
        "notes": "Exit codes of govc check: 0 all obligations proved (or only listed known findings), 1 with VIOLATION lines, 2 engine error. Known findings: /verif/known_findings.json. Baseline ledger of obligation names: /verif/ledger/<id>.json.",
    }
    json.dump(m, open('/verif/MANIFEST.json','w'), indent=1)
    print("claimed:", sorted(CLAIMED), "not applicable/pending:", len(na))

main()
