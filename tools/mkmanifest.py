#!/usr/bin/env python3
"""Regenerates /verif/MANIFEST.json from the table below (kept here so the manifest stays valid and in sync)."""
import json, subprocess, os

BASELINE = json.load(open('/root/.vp/BASELINE.json'))['cmd']

TECH_NOTE = "Common assumptions: go/ssa faithfulness, the engine's SMT encoding, solver soundness, mathematical integers (no overflow check), time as integer nanoseconds, assumed contracts of k8s/controller-runtime/logr/fmt functions (listed per run in evidence.coverage.trusted_base), goroutines not modelled."

CLAIMED = {
 "C01": ("Contract proofs of the per-sync planning: ManageDeployment and the canary role (manageCanaryStatus) put a node into PodsToCreate only if it is a key of the node map whose pod entry is nil, and never twice (distinctness proved through the duplicate-free enumeration of the map, for every iteration order); FilterAndMapPodsByNode is proved never to plan the deletion of a pod in phase Unknown nor of a pod on an ignored node (loop invariants over the pod list).",
         "Not covered yet: that map keys are exactly the eligible nodes (CheckNodeFitness is an uninterpreted predicate here), duplicate resolution order (FilterPodsByNode is a trusted stub), and the create/delete goroutine fan-out (trusted skeleton, see C17). Cross-sync staleness is outside a per-call contract. " + TECH_NOTE,
         "DESIGN.md 5 C01"),
 "C03": ("Contract proofs on the real code: CalculatePodToCreateAndDelete equals the budget formula for all integer inputs (exact functional postcondition), the budget lemma (available pods deleted <= max(0, maxUnavailable - U), total <= max(0, maxUnavailable)) is an SMT-checked lemma, and ManageDeployment is proved, for every node/pod map, every map iteration order and every API failure, to delete at most max(0, maxUnavailable) pods, only pods that exist, are not terminating and are outdated, and none on a canary node. Availability = readiness is a proved contract of IsPodAvailable.",
         "NOT decided by this check: the selection order inside the budget ('already-unavailable pods first'): the delete list is a prefix in map order and the clause needs a counting argument the engine cannot refute or prove; it is deliberately not asserted (DESIGN.md 6). compareCurrentPodWithNewPod is an uninterpreted deterministic predicate here (its internals are C10). " + TECH_NOTE,
         "DESIGN.md 5 C03"),
 "C04": ("Per-role contract proofs: retrieveReplicaSetStatus derives the role exactly as documented (active / canary / unknown) for every ExtendedDaemonSet status; ManageDeployment never plans a creation or deletion on a node named in status.canary.nodes (they are removed from the map before planning; proved with a loop invariant for every list); ManageUnknown plans no creation and no deletion; manageStatus records the canary replica set and keeps the node list.",
         "Not covered yet: the canary role's own planning (manageCanaryStatus creates only on canary nodes), node selection (C15) and the canary label patches. " + TECH_NOTE,
         "DESIGN.md 5 C04"),
 "C05": ("Contract proof on the real selectCurrentReplicaSet and the predicates it calls: the postcondition transcribed from the promotion rule (only-if direction, plus adoption when the active replica set is missing, failed/manual/paused never promoted by time) is discharged for all inputs by SMT from VCs generated over go/ssa of the working tree. This is the right level because the property is a statement about one call for every combination of strategy, timestamps, annotations and conditions.",
         "Assumes the ExtendedDaemonSet passed validation (manual mode has no duration) and ValidationMode is auto or manual (CRD enum). Not claimed: the data flow from the selector's result to status.activeReplicaSet inside updateInstanceWithCurrentRS, and the ordering of replica-set sync vs ExtendedDaemonSet reconcile (the contract quantifies over every state either order can produce). " + TECH_NOTE,
         "DESIGN.md 5 C05"),
 "C06": ("Contract proof of manageCanaryPodFailures against the trigger table of the statement, with a loop invariant over the canary pods: Canary-Failed is sticky; it newly fires only with auto-fail enabled, at least one pod, and one of the three documented triggers, and it does fire on each of them; disabled auto-fail / auto-pause never fire; a manual unpause overrides pausing unless failed (the zero-pod case was a genuine defect, found by the check, replayed on the real function and fixed); manageCanaryStatus plans no creation while paused or failed.",
         "HighestRestartCount / CannotStart / PendingCreate are deterministic uninterpreted extractors here (their loops are not yet under contract); the precise auto-pause trigger set (only-if direction for pausing) and the agreement of the written conditions with the flags are not yet discharged. Assumes pods with container statuses have status.startTime set. " + TECH_NOTE,
         "DESIGN.md 5 C06"),
 "C07": ("Contract proofs of the rollback ingredients: manageStatus clears status.canary, sets state 'Canary Failed' and leaves activeReplicaSet untouched whenever the canary is failed; selectCurrentReplicaSet keeps the active replica set for a failed canary (C05 fix); shouldDeleteERS refuses deletion for two minutes after Canary-Failed and otherwise only for all-zero status; cleanupReplicaSet is proved over the ghost API call log to issue only Delete calls, only for listed replica sets that are neither current nor up-to-date and that shouldDeleteERS accepts, on every error path.",
         "Not covered yet: the status-then-spec write order inside updateInstanceWithCurrentRS and the eventual replacement of canary pods (liveness, see C02). " + TECH_NOTE,
         "DESIGN.md 5 C07"),
 "C08": ("Contract proofs: ManageDeployment returns IsPaused/IsFrozen exactly as the annotations say, plans no update-deletion when paused or frozen and no creation when frozen (for every map, iteration order, API failure); selectCurrentReplicaSet never promotes a paused canary by elapsed time; nonCanaryState/manageStatus produce the documented state strings.",
         "Not covered yet: 'no additional canary pod is created while paused' (manageCanaryStatus) and toggling histories (each reconcile is proved for every annotation combination instead). " + TECH_NOTE,
         "DESIGN.md 5 C08"),
 "C09": ("Contract proofs: calculateMaxCreation equals min(maxParallelPodCreation, (1 + t div interval) * increase) whenever the interval is positive and never exceeds maxParallelPodCreation; ManageDeployment's create list is bounded by that value and its delete list by maxUnavailable, for all inputs.",
         "Not covered yet: the spacing of two acting syncs by reconcileFrequency (replica-set Reconcile gate). Percent values are resolved by the assumed GetValueFromIntOrPercent contract (exact for integers, uninterpreted for percent strings). " + TECH_NOTE,
         "DESIGN.md 5 C09"),
 "C11": ("Failure-path and statelessness contracts: both reconcilers (ExtendedDaemonSet and replica-set Reconcile) and every helper under contract are proved to leave all memory reachable by their caller unchanged ('modifies nothing' frame obligations), so a restarted controller with empty memory is indistinguishable from the running one; every postcondition over the ghost API call log is proved with the error result of each client call unconstrained and with the written object's metadata havocked whether or not an error is returned (call rejected and applied-but-answer-lost are both covered). Clauses of the shape 'for every new log entry k ...' are prefix-closed, so they hold at every crash point between two calls: namespaced lists, deletions only of listed replica sets that are neither current nor up to date, a replica set created only right after the list and only when no listed one matches, status write after all pod operations, spec write only directly after the status write.",
         "Not decided by contracts: convergence of the following failure-free reconciles to the same final state (a liveness / multi-reconcile statement, see C02) and pairs of faults across reconciles. The replica-set reconciler's flowcontrol.Backoff (delay before a failed pod is deleted again) is in-memory state outside the modelled heap: it affects timing only and is listed as an assumption. createPods/deletePods goroutine fan-out is a trusted skeleton (C17). " + TECH_NOTE,
         "DESIGN.md 5 C11"),
 "C13": ("Contract proofs along the template-hash chain: IsReplicaSetUpToDate holds exactly when the recorded hash annotation equals the hash of spec.template; newReplicaSetFromInstance returns a replica set in the ExtendedDaemonSet's namespace, labelled with its name (a genuine defect here was demonstrated and fixed), whose recorded hash, templateGeneration and template are those of spec.template; createNewReplicaSet issues at most one call, a Create of exactly that object (snapshot of the object sent); the ExtendedDaemonSet Reconcile is proved, with a loop invariant over the listed replica sets, to create one only directly after the list and only if no listed replica set matches spec.template; cleanupReplicaSet never deletes the current or the up-to-date replica set and only ones reporting zero pods.",
         "The hash is an uninterpreted function of the template object (json+md5 are not modelled), so 'edits that only reorder map keys' are outside what the contract can see; the PodTemplate reconciler and the hash stamped on pods (pod creation, C10) are not under contract yet; histories (A to B to A) are covered only through the per-reconcile rule 'no create while a matching replica set is listed'. Assumes List returns the matching objects and that objects filled by Get/List do not share memory with older objects. " + TECH_NOTE,
         "DESIGN.md 5 C13"),
 "C12": ("Frame contracts over the ghost API call log: every List issued by getPodList, getOldDaemonsetPodList and ManageDeployment (canary-label clean-up) carries a namespace restriction equal to the ExtendedDaemonSet's / replica set's namespace, on every path; cleanupReplicaSet only deletes listed replica sets. The unscoped lists were a genuine defect (demonstrated on the real code, fixed in five places).",
         "The two list sites in the ExtendedDaemonSet reconciler (replica-set list in Reconcile, pod list in selectNodes) are fixed in the code but not yet under contract; PodTemplate and create paths are not yet covered. Assumes List returns only objects matching its options. " + TECH_NOTE,
         "DESIGN.md 5 C12"),
 "C14": ("Contract proofs of the status functions: manageStatus / manageCanaryStatusConditions / nonCanaryState compute desired, upToDate, state, reason and the Canary-Paused / Canary-Failed conditions as the documented function of their inputs (universally quantified postconditions); ManageDeployment and ManageUnknown are proved to report 0 <= available <= ready <= current (<= desired) and desired = number of targeted nodes, via loop invariants over the node map.",
         "Not covered yet: the sums over replica sets in the ExtendedDaemonSet Reconcile, the canary role's counters, and quiescence (a reachability notion). " + TECH_NOTE,
         "DESIGN.md 5 C14"),
 "C16": ("Contract proofs: every Default* function keeps user-set values, fills the documented defaults, is idempotent and makes the IsDefaulted* recognisers true (full functional postconditions incl. frame); ValidateExtendedDaemonSetSpec rejects the three documented cases; and a safety sweep proves absence of nil dereference, index out of range, division by zero, nil-map write and failed type assertion in every function under contract (each from its stated precondition).",
         "The sweep covers the functions under contract listed in the evidence, not the whole repository; reconcilers' glue code is not yet under contract. Fuzzing of the serialized spec is a different technique and not claimed; the contracts quantify over every decoded value instead. " + TECH_NOTE,
         "DESIGN.md 5 C16"),
 "C19": ("Contract proofs of the five kubectl-eds run() methods over the ghost API call log with a snapshot of each object as sent: each command first Gets exactly the named object, then issues at most one write (a merge Patch of the ExtendedDaemonSet; for canary fail a second Get of the canary replica set and one status Update of it); the write is refused unless the precondition holds on the fetched object (active canary for canary pause/unpause/validate/fail, no canary for rolling-update pause and rollout freeze, not already in the requested state); the object sent differs from the object fetched only in the documented annotation(s) (every other annotation key, all labels, every scalar of spec and status and the nil-ness/length of their references are proved equal) or, for fail, in exactly one appended Canary-Failed=True condition; validate records the replica set that is the canary at that moment. Controller side: IsCanaryDeploymentValid holds only for the named replica set, a valid annotation promotes, pause/fail are never promoted by time, manageStatus reports 'Canary Paused' / 'Canary' / 'Canary Failed' accordingly.",
         "Command sequences followed by reconciles are covered only through the per-call contracts on both sides (each command for every fetched state, each reconcile for every annotation combination), not as histories. client.MergeFrom/Patch semantics (only the difference is sent) are assumed; cobra wiring (complete/validate) is not under contract. " + TECH_NOTE,
         "DESIGN.md 5 C19"),
 "C20": ("Contract proofs of the metric generators on the real function literals (addressed by metric name, not by position): each eds_status_* / ers_status_* generator returns exactly one series whose value is the named status field of the object passed (integers embedded exactly in the reals; 1/0 for the documented boolean conditions) labelled with that object's namespace and name; BuildInfoLabels returns as many keys as values as labels and pairs, at every index, the sanitised key of some label with the value of that same label (loop invariants; sort.Strings under an assumed permutation contract); the eds_labels / ers_labels generators carry that pairing through to the exported series. The pairing was a genuine defect (values were looked up under the sanitised key), demonstrated on the real code and fixed.",
         "sanitizeLabelName is an uninterpreted function (the regular expression is not modelled), so 'the result is a legal Prometheus name' and collisions after sanitising are not decided; that every label is exported (surjectivity of the permutation) follows from the length clause only informally. float64 is modelled as the reals (exact for the 32-bit counters used). " + TECH_NOTE,
         "DESIGN.md 5 C20"),
}

NOT_APPLICABLE = {
 "C02": "liveness/convergence over unboundedly many reconciles of several controllers plus kubelet; no per-call contract can state or decide 'eventually' (DESIGN.md 7)",
 "C17": "data-race freedom and error fan-in through goroutines/channels; a sequential VC generator over go/ssa has no model of interleavings, and this family excludes the race detector (DESIGN.md 7)",
}
PENDING = "contracts for this property are not yet discharged by the engine at this commit; not claimed until they are (see DESIGN.md 8, build order)"

def main():
    props = [json.loads(l)['id'] for l in open('/verif/properties.jsonl')]
    hooks = subprocess.run(['git','-C','/repo','log','--format=%h %s'],capture_output=True,text=True).stdout.splitlines()
    hook_commits = [l.split()[0] for l in hooks if l.split(' ',1)[1].startswith('verif:')]
    checks = []
    for p in props:
        if p not in CLAIMED: continue
        text, note, ref = CLAIMED[p]
        checks.append({
            "property_id": p,
            "quick_cmd": f"./bin/govc check {p} --tier quick",
            "thorough_cmd": f"./bin/govc check {p} --tier thorough",
            "evidence_file": f"/verif/evidence/{p}.json",
            "replay_cmd_template": "./bin/govc replay {path}",
            "engine": "govc",
            "level_claimed": {"category": "proof", "text": text, "design_ref": ref},
            "level_note": note,
            "technique": "contract-based deductive verification: weakest-precondition VCs generated over go/ssa of the real functions from //@ contracts, discharged by z3/cvc5; counterexamples replayed on the real code by an in-package overlay test",
        })
    na = []
    for p in props:
        if p in CLAIMED: continue
        na.append({"property_id": p, "reason": NOT_APPLICABLE.get(p, PENDING)})
    m = {
        "version": 1,
        "setup_cmd": "cd /verif/engine && GOFLAGS=-mod=vendor GOPROXY=off GOSUMDB=off GOTOOLCHAIN=local go build -o /verif/bin/govc ./cmd/govc && /verif/bin/govc selfcheck",
        "hooks": {
            "guard": "verif",
            "enable": "-tags verif (the engine loads /repo with this tag; the guarded files are comment-only zz_verif_contracts.go files holding the //@ contracts)",
            "baseline_off_cmd": BASELINE,
            "source_commits": hook_commits,
            "add_only": True,
        },
        "engines": [{"name": "govc", "path": "/verif/engine", "serves_properties": sorted(CLAIMED), "kind_free_text": "self-built deductive verifier for Go: contract parser, VC generation by symbolic execution of go/ssa with loop invariants and modular calls, SMT discharge (z3 4.8.12, z3 5.1.0, cvc5 1.0 raced), model replay"}],
        "checks": checks,
        "not_applicable": na,
        "notes": "Exit codes of govc check: 0 all obligations proved (or only listed known findings), 1 with VIOLATION lines, 2 engine error. Known findings: /verif/known_findings.json. Baseline ledger of obligation names: /verif/ledger/<id>.json.",
    }
    json.dump(m, open('/verif/MANIFEST.json','w'), indent=1)
    print("claimed:", sorted(CLAIMED), "not applicable/pending:", len(na))

main()
