#!/bin/sh
# Rebuild the engine, refresh the ledgers of all claimed properties from the current tree, regenerate MANIFEST.json.
set -e
cd /verif/engine && GOFLAGS=-mod=vendor GOPROXY=off GOSUMDB=off GOTOOLCHAIN=local go build -o /verif/bin/govc ./cmd/govc
cd /verif
python3 tools/mkmanifest.py
PROPS=$(python3 -c "import json;print(' '.join(c['property_id'] for c in json.load(open('MANIFEST.json'))['checks']))")
./bin/govc ledger --update $PROPS
for p in $PROPS; do ./bin/govc check $p --tier quick | tail -1; done
