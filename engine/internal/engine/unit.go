package engine

import (
	"fmt"
	"os"
	"go/token"
	"go/types"
	"sort"
	"strings"

	"golang.org/x/tools/go/ssa"
)

// State is the symbolic machine state at a program point.
type State struct {
	heap  map[string]*Term // heap key -> array term (missing = materialised lazily)
	alloc *Term            // allocation counter (Int)
	iters map[ssa.Value]*iterState
	ghost map[string]*Term // ghost scalars (loglen)
	nEvents int            // number of havoc events that precede this state (lazy materialisation replays only those)
}

type iterState struct {
	m    *Term // map ref
	dom  *Term // domain array at Range time
	pos  *Term
	kind string // "map"
	mt   *types.Map
	id   *Term // identifies this execution of the range statement
	n    *Term // number of keys at range time
}

func (s *State) clone() *State {
	n := &State{heap: make(map[string]*Term, len(s.heap)), alloc: s.alloc, iters: make(map[ssa.Value]*iterState, len(s.iters)), nEvents: s.nEvents}
	for k, v := range s.heap {
		n.heap[k] = v
	}
	for k, v := range s.iters {
		c := *v
		n.iters[k] = &c
	}
	if s.ghost != nil {
		n.ghost = map[string]*Term{}
		for k, v := range s.ghost {
			n.ghost[k] = v
		}
	}
	return n
}

type Obligation struct {
	Name    string
	Kind    string // post, pre, inv-init, inv-pres, nil, index, divzero, assert, frame, mapwrite, panic, lemma, cover
	Tags    []string
	Guard   *Term
	Prop    *Term
	NAssume int
	Src     string
	Pos     token.Position
	Cover   bool // satisfiable expected (vacuity guard)
	Unit    *Unit
	Parts   []*Obligation // discharged separately (one per return point); the parent is their conjunction
	RetState *State       // state and results at the return point this (part) obligation talks about
	RetVals  []*SV
	Failed   *Obligation  // the part that failed (set by discharge)
}

type havocEvent struct {
	guard *Term
	frame *FrameSpec
	bound *Term // alloc before the event
	id    int
	arrs  map[string]*Term // key -> new array (per key, created on demand)
}

// FrameSpec describes what a call or a loop may write.
type FrameSpec struct {
	Any    bool
	Roots  []*Term   // root ids (Int) of objects that may be written anywhere
	Leaves []leafLoc // individual leaf addresses
	Maps   []*Term   // map refs whose content may change
	Kinds  map[string]bool
}

type Unit struct {
	e    *Engine
	c    *TermCtx
	fn   *ssa.Function
	con  *Contract
	name string

	assumptions []*Term
	obls        []*Obligation
	invDone     map[string]bool
	warnings    []string
	events      []*havocEvent
	counters    map[string]int
	alloc0      *Term
	entry       *State
	frame       *FrameSpec // declared frame of this unit (nil = any)
	usedTrusted map[string]bool
	inlineDepth int
	specDepth   int
	arithWrap   bool
	pureApps    map[string]bool
	mapAxDone   map[string]bool
	unsupportedMsg string
	globalsSeen  []*Term
	globalVals   map[string]*SV
	closures     map[*Term]*closureVal
	needStrOrder bool
	logsUsed     bool
	goalInstCap  int // bound on instances of an existential of the goal (0 = default)
	freshRegions []freshRegion // deep copies and API reads: see regionFacts
	instCap      int // bound on instances per quantified hypothesis in the ground stage (0 = default)
	ifaceNilDone bool
	dcBound      *Term // allocation counter when the current DeepCopy started
	wantsSent    bool // some postcondition talks about logsent(k): snapshot objects sent by API writes
	ifaceStatic  map[int]types.Type // interface value term -> static type it was made from
	entryEnv     *SpecEnv
	args, fvs    []*SV
	retState     *State
	retVals      []*SV
	usedContracts map[string]bool
	frameAx      map[int][]*frameAxiom
	pureHist     map[string][]*pureCall
	assumed      map[int]bool
	openFacts    []openFact
	substMaps    []map[*Term]*Term
	ptrFacts     []ptrFact
	elemTypes    map[int]types.Type // array-root type id -> element type
	elemOrder    []int
}

type frameAxiom struct {
	na, prev, bv, cond, guard *Term
	at                        int
	rootCond                  func(R *Term) *Term // condition under which every address of object R is preserved
}

func (u *Unit) addFrameAx(fa *frameAxiom) {
	if u.frameAx == nil {
		u.frameAx = map[int][]*frameAxiom{}
	}
	u.frameAx[fa.na.id] = append(u.frameAx[fa.na.id], fa)
}

// frameInstances instantiates the frame axioms on every closed address at which a havocked array is read in ts.
func (u *Unit) frameInstances(ts []*Term, nAssume int) []*Term {
	if len(u.frameAx) == 0 {
		return nil
	}
	c := u.c
	var out []*Term
	done := map[int]bool{}
	seen := map[int]bool{}
	var work []*Term
	var scan func(t *Term)
	scan = func(t *Term) {
		if seen[t.id] {
			return
		}
		seen[t.id] = true
		if t.Op == "select" && !t.open {
			if _, ok := u.frameAx[t.Args[0].id]; ok {
				work = append(work, t)
			}
		}
		for _, a := range t.Args {
			scan(a)
		}
	}
	for _, t := range ts {
		scan(t)
	}
	for len(work) > 0 && len(out) < 20000 {
		t := work[len(work)-1]
		work = work[:len(work)-1]
		if done[t.id] {
			continue
		}
		done[t.id] = true
		for _, fa := range u.frameAx[t.Args[0].id] {
			if fa.at > nAssume {
				continue
			}
			a := t.Args[1]
			cond := c.Subst(fa.cond, map[*Term]*Term{fa.bv: a})
			inst := c.Implies(c.And(fa.guard, cond), c.Eq(t, c.Select(fa.prev, a)))
			if inst.IsTrue() {
				continue
			}
			out = append(out, inst)
			scan(inst)
		}
	}
	return out
}

type openFact struct {
	guard, fact *Term
	at          int
}

type ptrFact struct {
	x     *Term
	elem  types.Type
	guard *Term
	at    int
}

func (u *Unit) warn(format string, args ...interface{}) {
	w := fmt.Sprintf(format, args...)
	for _, x := range u.warnings {
		if x == w {
			return
		}
	}
	u.warnings = append(u.warnings, w)
}

func (u *Unit) assume(guard, fact *Term) {
	if fact.IsTrue() {
		return
	}
	if fact.open || (guard != nil && guard.open) {
		// facts about bound variables cannot be asserted at top level; they are kept as templates and instantiated
		// together with the quantified formula they belong to (skolemisation / instantiation in VC generation)
		u.openFacts = append(u.openFacts, openFact{guard: guard, fact: fact, at: len(u.assumptions)})
		return
	}
	f := fact
	if guard != nil {
		f = u.c.Implies(guard, fact)
	}
	if f.IsTrue() {
		return
	}
	if u.assumed == nil {
		u.assumed = map[int]bool{}
	}
	if u.assumed[f.id] {
		return
	}
	u.assumed[f.id] = true
	u.assumptions = append(u.assumptions, f)
}

func (u *Unit) oblige(kind, label string, tags []string, guard, prop *Term, src string, pos token.Pos) *Obligation {
	if u.specDepth > 0 {
		return nil
	}
	base := u.name + "/" + kind + "/" + label
	n := u.counters[base]
	u.counters[base] = n + 1
	name := base
	if n > 0 {
		name = fmt.Sprintf("%s~%d", base, n)
	}
	o := &Obligation{Name: name, Kind: kind, Tags: tags, Guard: guard, Prop: prop, NAssume: len(u.assumptions), Src: src, Unit: u}
	if pos.IsValid() {
		o.Pos = u.e.fset.Position(pos)
	}
	u.obls = append(u.obls, o)
	return o
}

// safety obligations are trivially discharged when syntactically true
func (u *Unit) safety(kind, label string, guard, prop *Term, src string, pos token.Pos) {
	if prop.IsTrue() || guard.IsFalse() {
		return
	}
	u.oblige(kind, label, []string{"C16"}, guard, prop, src, pos)
	// continue under the assumption that the check passed (execution would have panicked otherwise)
	u.assume(guard, prop)
}

// ---------------------------------------------------------------------------
// heap access with lazy materialisation through havoc events
// ---------------------------------------------------------------------------

func (u *Unit) heapGet(st *State, key string, sort *Sort) *Term {
	if a, ok := st.heap[key]; ok {
		return a
	}
	arr := u.c.Const("H0_"+sanitizeSym(key), sort)
	n := st.nEvents
	if n > len(u.events) {
		n = len(u.events)
	}
	for _, ev := range u.events[:n] {
		arr = u.c.Ite(ev.guard, u.eventArr(ev, key, arr), arr)
	}
	st.heap[key] = arr
	return arr
}

func (u *Unit) heapArr(st *State, s *Sort) *Term {
	return u.heapGet(st, heapKey(s), ArraySort(SRef, s))
}

// eventArr returns the array for key after event ev applied to prev (creating frame axioms once).
func (u *Unit) eventArr(ev *havocEvent, key string, prev *Term) *Term {
	if strings.HasPrefix(key, "G:") {
		return prev // the API log is handled by logHavoc
	}
	k := fmt.Sprintf("%s|%d", key, prev.id)
	if a, ok := ev.arrs[k]; ok {
		return a
	}
	if ev.frame.Kinds != nil && !ev.frame.Kinds[key] && !ev.frame.Any {
		ev.arrs[k] = prev
		return prev
	}
	c := u.c
	na := c.Fresh(fmt.Sprintf("Hh%d_%s", ev.id, sanitizeSym(key)), prev.Sort)
	ev.arrs[k] = na
	if ev.frame.Any {
		return na
	}
	ks, _ := prev.Sort.arrayParts()
	if ks != SRef {
		return na
	}
	if strings.HasPrefix(key, "G:") {
		return na
	}
	r := c.BoundVar("r", SRef)
	var conds []*Term
	conds = append(conds, c.Lt(c.Root(r), ev.bound))
	isMapKey := strings.HasPrefix(key, "MD:") || strings.HasPrefix(key, "MV:") || strings.HasPrefix(key, "ML:")
	if isMapKey {
		for _, m := range ev.frame.Maps {
			// the nil map never changes (writing it panics), even when a frame names a map that happens to be nil
			conds = append(conds, c.Or(c.Eq(r, c.Nil()), c.Neq(r, m)))
		}
	} else {
		for _, root := range ev.frame.Roots {
			conds = append(conds, c.Neq(c.Root(r), root))
		}
		_, vs := prev.Sort.arrayParts()
		for _, l := range ev.frame.Leaves {
			if l.Sort == vs {
				if l.Cond != nil {
					conds = append(conds, c.Not(c.And(l.Cond, c.Eq(r, l.Addr))))
				} else {
					conds = append(conds, c.Neq(r, l.Addr))
				}
			}
		}
	}
	body := c.Implies(c.And(conds...), c.Eq(c.Select(na, r), c.Select(prev, r)))
	ax := c.Forall([]*Term{r}, body, []*Term{c.mk("select", "", selSort(na), na, r)})
	u.assume(ev.guard, ax)
	fa := &frameAxiom{na: na, prev: prev, bv: r, cond: c.And(conds...), guard: ev.guard, at: len(u.assumptions)}
	if !isMapKey {
		fr, bound := ev.frame, ev.bound
		_, vs := prev.Sort.arrayParts()
		fa.rootCond = func(R *Term) *Term {
			cs := []*Term{c.Lt(R, bound)}
			for _, root := range fr.Roots {
				cs = append(cs, c.Neq(R, root))
			}
			for _, l := range fr.Leaves {
				if l.Sort == vs {
					cs = append(cs, c.Neq(R, c.Root(l.Addr)))
				}
			}
			return c.And(cs...)
		}
	}
	u.addFrameAx(fa)
	return na
}

func selSort(arr *Term) *Sort { _, v := arr.Sort.arrayParts(); return v }

// havoc applies a frame to the state: every materialised key gets a new array; later keys see the event lazily.
func (u *Unit) havoc(st *State, guard *Term, fr *FrameSpec) {
	if !fr.Any && len(fr.Roots) == 0 && len(fr.Leaves) == 0 && len(fr.Maps) == 0 {
		// nothing visible changes: only allocation may have happened
		na := u.c.Fresh("alloc", SInt)
		u.c.allocBase[na.id] = true
		u.assume(nil, u.c.Le(st.alloc, na)) // a fresh counter: monotone on every path
		u.c.allocLB[na.id] = st.alloc
		st.alloc = na
		return
	}
	ev := &havocEvent{guard: guard, frame: fr, bound: st.alloc, id: len(u.events), arrs: map[string]*Term{}}
	if os.Getenv("GOVC_DEBUG") != "" {
		fmt.Fprintf(os.Stderr, "havoc %d in %s: any=%v roots=%d leaves=%d maps=%d kinds=%v\n", ev.id, u.name, fr.Any, len(fr.Roots), len(fr.Leaves), len(fr.Maps), fr.Kinds)
	}
	keys := make([]string, 0, len(st.heap))
	for k := range st.heap {
		keys = append(keys, k)
	}
	sort.Strings(keys)
	for _, k := range keys {
		st.heap[k] = u.eventArr(ev, k, st.heap[k])
	}
	u.events = append(u.events, ev)
	st.nEvents = len(u.events)
	// objects may have been allocated
	na := u.c.Fresh("alloc", SInt)
	u.c.allocBase[na.id] = true
	u.assume(nil, u.c.Le(st.alloc, na)) // a fresh counter: monotone on every path
	if guard == nil || guard.IsTrue() || true {
		// the counter only grows on every path, so the bound is recorded unconditionally for the simplifier
		u.c.allocLB[na.id] = st.alloc
	}
	st.alloc = na
}

// allocObj returns a fresh object reference.
func (u *Unit) allocObj(st *State) *Term {
	id := st.alloc
	st.alloc = u.c.Add(id, u.c.Int(1))
	return u.c.Obj(id)
}

// mergeStates joins edge states under their guards.
func (u *Unit) mergeStates(edges []edge) (*Term, *State) {
	c := u.c
	if len(edges) == 1 {
		return edges[0].guard, edges[0].st.clone()
	}
	var guards []*Term
	for _, e := range edges {
		guards = append(guards, e.guard)
	}
	pc := c.Or(guards...)
	st := &State{heap: map[string]*Term{}, iters: map[ssa.Value]*iterState{}}
	for _, e := range edges {
		if e.st.nEvents > st.nEvents {
			st.nEvents = e.st.nEvents
		}
	}
	keys := map[string]*Sort{}
	for _, e := range edges {
		for k, v := range e.st.heap {
			keys[k] = v.Sort
		}
	}
	ks := make([]string, 0, len(keys))
	for k := range keys {
		ks = append(ks, k)
	}
	sort.Strings(ks)
	for _, k := range ks {
		var acc *Term
		for i := len(edges) - 1; i >= 0; i-- {
			a := u.heapGet(edges[i].st, k, keys[k])
			if acc == nil {
				acc = a
			} else {
				acc = c.Ite(edges[i].guard, a, acc)
			}
		}
		st.heap[k] = acc
	}
	var al *Term
	for i := len(edges) - 1; i >= 0; i-- {
		if al == nil {
			al = edges[i].st.alloc
		} else {
			al = c.Ite(edges[i].guard, edges[i].st.alloc, al)
		}
	}
	st.alloc = al
	anyGhost := false
	for _, e := range edges {
		if e.st.ghost != nil {
			anyGhost = true
		}
	}
	if anyGhost {
		st.ghost = map[string]*Term{}
		var gl *Term
		for i := len(edges) - 1; i >= 0; i-- {
			l := u.logLen(edges[i].st)
			if gl == nil {
				gl = l
			} else {
				gl = c.Ite(edges[i].guard, l, gl)
			}
		}
		st.ghost["loglen"] = gl
	}
	for i := len(edges) - 1; i >= 0; i-- {
		for k, it := range edges[i].st.iters {
			if cur, ok := st.iters[k]; ok {
				n := *cur
				n.pos = c.Ite(edges[i].guard, it.pos, cur.pos)
				st.iters[k] = &n
			} else {
				n := *it
				st.iters[k] = &n
			}
		}
	}
	return pc, st
}

type edge struct {
	from  *ssa.BasicBlock
	guard *Term
	st    *State
}

// objVer is the version of object R in heap array arr: it changes only when a location of R is written.
func (u *Unit) objVer(arr, R *Term) *Term {
	c := u.c
	f := c.Func("objver", []*Sort{SInt, SInt}, SInt)
	u.verChain(arr, R)
	return c.App(f, u.heapToken(arr), R)
}

// verChain emits the ground facts linking the version of R across the history of the array term.
func (u *Unit) verChain(arr, R *Term) {
	c := u.c
	f := c.Func("objver", []*Sort{SInt, SInt}, SInt)
	for depth := 0; depth < 5000; depth++ {
		key := fmt.Sprintf("ver|%d|%d", arr.id, R.id)
		if u.invDone[key] {
			return
		}
		u.invDone[key] = true
		switch arr.Op {
		case "store":
			prev := arr.Args[0]
			u.assume(nil, c.Implies(c.Neq(c.Root(arr.Args[1]), R), c.Eq(c.App(f, u.heapToken(arr), R), c.App(f, u.heapToken(prev), R))))
			arr = prev
		case "ite":
			u.verChain(arr.Args[1], R)
			arr = arr.Args[2]
		case "const":
			fas := u.frameAx[arr.id]
			if len(fas) == 0 {
				return
			}
			var prev *Term
			for _, fa := range fas {
				if fa.rootCond == nil {
					continue
				}
				u.assume(nil, c.Implies(c.And(fa.guard, fa.rootCond(R)), c.Eq(c.App(f, u.heapToken(arr), R), c.App(f, u.heapToken(fa.prev), R))))
				prev = fa.prev
			}
			if prev == nil {
				return
			}
			arr = prev
		default:
			return
		}
	}
}


// freshRegion records an operation (deep copy, API read) that builds a tree of newly allocated objects: every reference
// held, right after the operation, by an object allocated during it (or by the object it filled) is nil or allocated
// during it. The quantified form is assumed once; regionFacts adds the ground instance for an address being read, so
// that the fact is available without trigger matching.
type freshRegion struct {
	guard         *Term
	before, after *Term
	objRoot       *Term // root of the object filled by an API read (nil for a deep copy)
	refArr, slArr *Term // H:Ref and H:Slice right after the operation
}

func (u *Unit) regionFacts(addr *Term, s *Sort) {
	if addr.open || (s != SRef && s != SSlice) || len(u.freshRegions) == 0 {
		return
	}
	c := u.c
	for _, r := range u.freshRegions {
		inNew := func(x *Term) *Term {
			if r.after == nil {
				return c.Le(r.before, c.Root(x))
			}
			return c.And(c.Le(r.before, c.Root(x)), c.Lt(c.Root(x), r.after))
		}
		region := inNew(addr)
		if r.objRoot != nil {
			region = c.Or(c.Eq(c.Root(addr), r.objRoot), region)
		}
		if region.IsFalse() || (r.after == nil || r.objRoot != nil) && !region.IsTrue() {
			// API reads and plain deep copies: only addresses that certainly lie in the region get the ground fact,
			// the others are left to the quantified form (keeps the number of facts per load small)
			continue
		}
		var v *Term
		if s == SRef {
			v = c.Select(r.refArr, addr)
		} else {
			v = c.SArr(c.Select(r.slArr, addr))
		}
		key := fmt.Sprintf("region|%d|%d|%d", r.before.id, addr.id, v.id)
		if u.pureApps[key] {
			continue
		}
		u.pureApps[key] = true
		u.assume(r.guard, c.Implies(region, c.Or(c.Eq(v, c.Nil()), inNew(v))))
	}
}
