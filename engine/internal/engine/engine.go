package engine

import (
	"go/constant"
	"fmt"
	"go/token"
	"go/types"
	"os"
	"path/filepath"
	"sort"
	"strings"

	"golang.org/x/tools/go/packages"
	"golang.org/x/tools/go/ssa"
	"golang.org/x/tools/go/ssa/ssautil"
)

type Engine struct {
	RepoDir  string
	VerifDir string
	fset     *token.FileSet
	pkgs     []*packages.Package
	allPkgs  map[string]*packages.Package
	prog     *ssa.Program
	ssaPkgs  []*ssa.Package
	fns      map[string]*ssa.Function // by full name
	fnAlias  map[string]string        // "outer@<string>" -> full name of a function literal (see aliasNamedLiterals)
	contracts map[string]*Contract    // by full function name
	files    []*ContractFile
	specFns  map[string]*SpecFn // pkgpath.name
	lemmas   []*Lemma
	lay      *Layouts
	fnInfos  map[*ssa.Function]*fnInfo
	typeIDs  map[string]int
	globalStores map[*ssa.Global]bool
	globalInitNonNil map[*ssa.Global]bool
	readSets map[string][]string
	writesMemo map[*ssa.Function]int
	LoadSeconds float64
	typePkgs    map[string]*types.Package
}

const contractFileName = "zz_verif_contracts.go"

// Load loads /repo (both workspace modules) with -tags verif and builds SSA.
func Load(repoDir, verifDir string) (*Engine, error) {
	return LoadPatterns(repoDir, verifDir, []string{"./...", "./api/..."}, []string{"GOFLAGS=", "GOWORK="})
}

// LoadPatterns loads the given package patterns from dir (used for /repo and for the self-test corpus).
func LoadPatterns(repoDir, verifDir string, patterns []string, extraEnv []string) (*Engine, error) {
	e := &Engine{RepoDir: repoDir, VerifDir: verifDir, fns: map[string]*ssa.Function{}, fnAlias: map[string]string{}, contracts: map[string]*Contract{},
		specFns: map[string]*SpecFn{}, lay: newLayouts(), fnInfos: map[*ssa.Function]*fnInfo{}, typeIDs: map[string]int{},
		allPkgs: map[string]*packages.Package{}, typePkgs: map[string]*types.Package{}, readSets: map[string][]string{}, writesMemo: map[*ssa.Function]int{}}
	cfg := &packages.Config{
		Mode:       packages.LoadSyntax,
		Dir:        repoDir,
		BuildFlags: []string{"-tags=verif"},
		Env:        append(append(os.Environ(), "GOPROXY=off", "GOSUMDB=off", "GOTOOLCHAIN=local"), extraEnv...),
		Tests:      false,
	}
	e.fset = token.NewFileSet()
	cfg.Fset = e.fset
	pkgs, err := packages.Load(cfg, patterns...)
	if err != nil {
		return nil, err
	}
	var errs []string
	for _, p := range pkgs {
		e.allPkgs[p.PkgPath] = p
		for _, er := range p.Errors {
			errs = append(errs, er.Error())
		}
		e.collectTypes(p.Types)
	}
	if len(errs) > 0 {
		return nil, fmt.Errorf("package errors:\n%s", strings.Join(errs, "\n"))
	}
	e.pkgs = pkgs
	prog, spkgs := ssautil.Packages(pkgs, ssa.GlobalDebug|ssa.InstantiateGenerics)
	prog.Build()
	e.prog = prog
	e.ssaPkgs = spkgs
	for _, sp := range spkgs {
		if sp == nil {
			continue
		}
		for _, m := range sp.Members {
			if f, ok := m.(*ssa.Function); ok {
				e.addFn(f)
			}
		}
	}
	for f := range ssautil.AllFunctions(prog) {
		if _, ok := e.fns[f.String()]; !ok {
			e.fns[f.String()] = f
		}
	}
	e.scanGlobals()
	// contract files in the repository
	for _, p := range pkgs {
		for i, f := range p.CompiledGoFiles {
			if filepath.Base(f) != contractFileName {
				continue
			}
			_ = i
			data, err := os.ReadFile(f)
			if err != nil {
				return nil, err
			}
			cf, err := ParseContractText(f, p.PkgPath, string(data), false)
			if err != nil {
				return nil, err
			}
			if err := e.addContractFile(cf); err != nil {
				return nil, err
			}
		}
	}
	// assumed contracts of external dependencies
	exts, _ := filepath.Glob(filepath.Join(verifDir, "engine", "externals", "*.spec"))
	sort.Strings(exts)
	for _, f := range exts {
		data, err := os.ReadFile(f)
		if err != nil {
			return nil, err
		}
		cf, err := ParseContractText(f, "", string(data), true)
		if err != nil {
			return nil, err
		}
		if err := e.addContractFile(cf); err != nil {
			return nil, err
		}
	}
	return e, nil
}

func (e *Engine) addFn(f *ssa.Function) {
	e.fns[f.String()] = f
	for _, a := range f.AnonFuncs {
		e.addFn(a)
	}
	e.aliasNamedLiterals(f)
}

// aliasNamedLiterals gives function literals stored in a struct literal next to a constant string field a stable
// name "outer@<string>" (e.g. the generator of the metric family named "eds_status_desired"), so that their contracts
// do not depend on the position of the literal in the enclosing function.
func (e *Engine) aliasNamedLiterals(f *ssa.Function) {
	if len(f.AnonFuncs) == 0 {
		return
	}
	strOf := map[ssa.Value]string{}
	fnOf := map[ssa.Value]*ssa.Function{}
	dup := map[string]bool{}
	for _, b := range f.Blocks {
		for _, ins := range b.Instrs {
			st, ok := ins.(*ssa.Store)
			if !ok {
				continue
			}
			fa, ok := st.Addr.(*ssa.FieldAddr)
			if !ok {
				continue
			}
			switch v := st.Val.(type) {
			case *ssa.Const:
				if v.Value != nil && v.Value.Kind() == constant.String {
					if _, seen := strOf[fa.X]; !seen {
						strOf[fa.X] = constant.StringVal(v.Value)
					}
				}
			case *ssa.Function:
				if v.Parent() == f {
					fnOf[fa.X] = v
				}
			case *ssa.MakeClosure:
				if fn, ok := v.Fn.(*ssa.Function); ok && fn.Parent() == f {
					fnOf[fa.X] = fn
				}
			}
		}
	}
	for base, fn := range fnOf {
		if s, ok := strOf[base]; ok {
			k := f.String() + "@" + s
			if _, exists := e.fnAlias[k]; exists {
				dup[k] = true
			}
			e.fnAlias[k] = fn.String()
		}
	}
	for k := range dup {
		delete(e.fnAlias, k)
	}
}

func (e *Engine) addContractFile(cf *ContractFile) error {
	e.files = append(e.files, cf)
	for _, con := range cf.Contracts {
		name := con.Func
		if !cf.isExternal() {
			name = qualify(cf.PkgPath, con.Func)
		} else {
			// externals give the package path for spec resolution through the function name
			con.PkgPath = pkgOfFullName(name)
		}
		if _, dup := e.contracts[name]; dup {
			return fmt.Errorf("%s: duplicate contract for %s", cf.Path, name)
		}
		if !con.External {
			if real, ok := e.fnAlias[name]; ok {
				con.Display = name
				name = real
			}
			if _, ok := e.fns[name]; !ok {
				return fmt.Errorf("%s: contract for unknown function %s", cf.Path, name)
			}
		}
		con.Func = name
		con.file = cf
		e.contracts[name] = con
	}
	for _, sf := range cf.SpecFns {
		e.specFns[sf.PkgPath+"."+sf.Name] = sf
		e.specFns["."+sf.Name] = sf // spec functions are global by bare name as a fallback
	}
	for _, l := range cf.Lemmas {
		l.file = cf
		e.lemmas = append(e.lemmas, l)
	}
	return nil
}

func (cf *ContractFile) isExternal() bool { return cf.PkgPath == "" }

// qualify turns "Name", "(*T).Name", "(T).Name", "outer$1" into the ssa full name.
func qualify(pkg, name string) string {
	if strings.HasPrefix(name, "(*") {
		return "(*" + pkg + "." + name[2:]
	}
	if strings.HasPrefix(name, "(") {
		return "(" + pkg + "." + name[1:]
	}
	return pkg + "." + name
}

func pkgOfFullName(name string) string {
	n := strings.TrimLeft(name, "(*")
	if i := strings.Index(n, ")"); i >= 0 {
		n = n[:i]
	}
	// n = path.Type or path.Func (path may contain dots in domain names)
	j := strings.LastIndex(n, ".")
	if j < 0 {
		return ""
	}
	// for "(path.Type).Method" n was cut at ")": n = path.Type
	if strings.HasPrefix(name, "(") {
		return n[:j]
	}
	return n[:j]
}

func (e *Engine) typesPkg(path string) *types.Package {
	return e.typePkgs[path]
}

func (e *Engine) collectTypes(p *types.Package) {
	if p == nil || e.typePkgs[p.Path()] != nil {
		return
	}
	e.typePkgs[p.Path()] = p
	for _, imp := range p.Imports() {
		e.collectTypes(imp)
	}
}

func (e *Engine) importsFor(con *Contract) map[string]string {
	if con.file != nil {
		return con.file.Imports
	}
	return nil
}

func (e *Engine) specFn(pkgPath, name string) *SpecFn {
	if sf, ok := e.specFns[pkgPath+"."+name]; ok {
		return sf
	}
	return e.specFns["."+name]
}

func (e *Engine) globalFor(v *types.Var) *ssa.Global {
	if v.Pkg() == nil {
		return nil
	}
	sp := e.prog.Package(v.Pkg())
	if sp == nil {
		return nil
	}
	g, _ := sp.Members[v.Name()].(*ssa.Global)
	return g
}

// scanGlobals records which package-level variables are stored to outside their package initialiser.
func (e *Engine) scanGlobals() {
	e.globalStores = map[*ssa.Global]bool{}
	e.globalInitNonNil = map[*ssa.Global]bool{}
	for _, f := range e.fns {
		isInit := f.Name() == "init" && f.Parent() == nil
		for _, b := range f.Blocks {
			for _, in := range b.Instrs {
				st, ok := in.(*ssa.Store)
				if !ok {
					continue
				}
				g, ok := st.Addr.(*ssa.Global)
				if !ok {
					continue
				}
				if !isInit {
					e.globalStores[g] = true
					continue
				}
				// initialiser: errors.New / fmt.Errorf / regexp.MustCompile / map or composite literal => non-nil
				switch v := st.Val.(type) {
				case *ssa.Call:
					if callee := v.Call.StaticCallee(); callee != nil {
						switch callee.String() {
						case "errors.New", "fmt.Errorf", "regexp.MustCompile":
							e.globalInitNonNil[g] = true
						}
					}
				case *ssa.MakeMap, *ssa.MakeInterface, *ssa.Alloc:
					e.globalInitNonNil[g] = true
				}
			}
		}
	}
}

func (e *Engine) globalImmutable(g *ssa.Global) bool {
	if g.Pkg == nil {
		return false
	}
	// only globals of packages whose SSA we have (repo packages) can be checked for stores
	if _, ok := e.allPkgs[g.Pkg.Pkg.Path()]; !ok {
		return false
	}
	hasBody := false
	if init := g.Pkg.Func("init"); init != nil && len(init.Blocks) > 0 {
		hasBody = true
	}
	if !hasBody {
		// dependency package (type-only): exported error variables are conventionally immutable
		return false
	}
	return !e.globalStores[g]
}

func (e *Engine) globalNonNil(g *ssa.Global) bool { return e.globalInitNonNil[g] }

// autoTransparent: repository functions without a contract are never inlined implicitly.
func (e *Engine) autoTransparent(fn *ssa.Function) bool { return false }

// fnWrites: does the function body contain heap writes to non-local memory (syntactic)?
func (e *Engine) fnWrites(fn *ssa.Function) bool {
	if v, ok := e.writesMemo[fn]; ok {
		return v == 1
	}
	e.writesMemo[fn] = 1 // recursion guard: assume writes
	w := false
	for _, b := range fn.Blocks {
		for _, in := range b.Instrs {
			switch x := in.(type) {
			case *ssa.Store:
				if !localAddr(x.Addr) {
					w = true
				}
			case *ssa.MapUpdate:
				w = true
			case *ssa.Call:
				if bi, ok := x.Call.Value.(*ssa.Builtin); ok {
					if bi.Name() == "delete" || bi.Name() == "copy" || bi.Name() == "append" {
						w = true
					}
					continue
				}
				if f := x.Call.StaticCallee(); f != nil {
					name := f.String()
					if con := e.contracts[name]; con != nil {
						if !(con.Pure || con.NoHeap || (con.HasModifies && !con.ModAny && len(con.Modifies) == 0)) {
							if con.Transparent && len(f.Blocks) > 0 {
								if e.fnWrites(f) {
									w = true
								}
							} else {
								w = true
							}
						}
					} else if f.Pkg == nil || !heapPurePkgs[f.Pkg.Pkg.Path()] {
						w = true
					}
				} else if x.Call.IsInvoke() {
					if !heapPurePkgs[pkgPathOf(x.Call.Method.Pkg())] {
						w = true
					}
				} else {
					w = true
				}
			}
		}
	}
	if w {
		e.writesMemo[fn] = 1
	} else {
		e.writesMemo[fn] = 0
	}
	return w
}

func pkgPathOf(p *types.Package) string {
	if p == nil {
		return ""
	}
	return p.Path()
}

func localAddr(v ssa.Value) bool {
	switch x := v.(type) {
	case *ssa.Alloc:
		return true
	case *ssa.FieldAddr:
		return localAddr(x.X)
	case *ssa.IndexAddr:
		if _, ok := x.X.Type().Underlying().(*types.Pointer); ok {
			return localAddr(x.X)
		}
	}
	return false
}

// readSet: heap arrays a pure function may read (sorted keys). Declared via 'reads', else all scalar kinds.
func (e *Engine) readSet(name string, con *Contract) []string {
	if rs, ok := e.readSets[name]; ok {
		return rs
	}
	var out []string
	if con != nil && len(con.ReadLocs) > 0 && con.Reads == nil {
		// kinds follow from the footprint: conservatively all scalar kinds
		out = []string{"H:Bool", "H:Int", "H:Ref", "H:Slice", "H:Str"}
	} else if con != nil && con.Reads != nil {
		for _, r := range con.Reads {
			if r == "nothing" {
				continue
			}
			if strings.Contains(r, ":") {
				out = append(out, r)
			} else {
				out = append(out, "H:"+r)
			}
		}
	} else if con != nil && con.External {
		out = nil // external pure functions: functions of their arguments only unless 'reads' says otherwise
	} else {
		out = []string{"H:Bool", "H:Int", "H:Ref", "H:Slice", "H:Str", "MD:Str", "ML:Str", "MV:Str:0:Str"}
	}
	sort.Strings(out)
	e.readSets[name] = out
	return out
}
