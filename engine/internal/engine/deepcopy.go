package engine

import (
	"go/types"
	"strings"

	"golang.org/x/tools/go/ssa"
)

// Assumed contract of generated (*T).DeepCopy methods: the result is nil iff the receiver is nil; otherwise a fresh
// object whose scalar leaves equal the source's, whose pointers are deep copies (to a fixed depth, below which only
// nil-ness is preserved), whose slices are fresh backing arrays with element-wise equal scalar leaves, and whose maps
// are fresh maps with equal domain and (shallowly) equal values. The source is not modified.

func isDeepCopy(fn *ssa.Function) bool {
	if fn.Name() != "DeepCopy" || fn.Signature.Recv() == nil || fn.Signature.Results().Len() != 1 {
		return false
	}
	rp, ok := fn.Signature.Recv().Type().Underlying().(*types.Pointer)
	if !ok {
		return false
	}
	return types.Identical(fn.Signature.Results().At(0).Type(), types.NewPointer(rp.Elem())) ||
		types.Identical(fn.Signature.Results().At(0).Type(), fn.Signature.Recv().Type())
}

func (u *Unit) deepCopyCall(fn *ssa.Function, args []*SV, st *State, pc *Term) []*SV {
	c := u.c
	src := args[0].T
	et := fn.Signature.Recv().Type().Underlying().(*types.Pointer).Elem()
	u.usedTrusted["assumed contract (generated deepcopy): "+shortName(fn.String())] = true
	nonNil := c.Neq(src, c.Nil())
	u.dcBound = st.alloc
	before := st.alloc
	dst := u.deepCopyObj(st, c.And(pc, nonNil), src, et, 3)
	// The copy is a tree of newly allocated objects (including the ones this model does not descend into): every
	// reference held, right after the copy, by an object that did not exist before it is nil or refers to an object
	// that did not exist before it. With "deepcopy-tree" in the unit's contract the nested objects get a reserved
	// block of roots (the counter moves by an unknown amount), so they cannot coincide with later allocations;
	// without it there is no upper bound, which only adds behaviours (possible aliasing with later allocations).
	var after *Term
	if u.con != nil && u.con.DeepTree {
		u.havoc(st, pc, &FrameSpec{})
		after = st.alloc
	}
	inNew := func(x *Term) *Term {
		if after == nil {
			return c.Le(before, c.Root(x))
		}
		return c.And(c.Le(before, c.Root(x)), c.Lt(c.Root(x), after))
	}
	a := c.BoundVar("da", SRef)
	rsel := c.mk("select", "", SRef, u.heapArr(st, SRef), a)
	u.assume(pc, c.Forall([]*Term{a}, c.Implies(inNew(a), c.Or(c.Eq(rsel, c.Nil()), inNew(rsel))), []*Term{rsel}))
	ssel := c.mk("select", "", SSlice, u.heapArr(st, SSlice), a)
	u.assume(pc, c.Forall([]*Term{a}, c.Implies(inNew(a), c.Or(c.Eq(c.SArr(ssel), c.Nil()), inNew(c.SArr(ssel)))), []*Term{ssel}))
	u.freshRegions = append(u.freshRegions, freshRegion{guard: pc, before: before, after: after, refArr: u.heapArr(st, SRef), slArr: u.heapArr(st, SSlice)})
	return []*SV{leaf(c.Ite(nonNil, dst, c.Nil()))}
}

func (u *Unit) deepCopyObj(st *State, guard *Term, src *Term, t types.Type, depth int) *Term {
	dst := u.allocObj(st)
	u.deepCopyInto(st, guard, src, dst, t, depth)
	return dst
}

func (u *Unit) deepCopyInto(st *State, guard *Term, src, dst *Term, t types.Type, depth int) {
	c := u.c
	if s := u.leafSort(t); s != nil {
		// raw read: the copied value inherits whatever is known about the source value
		v := u.readThrough(u.heapArr(st, s), src, guard)
		// whatever the source refers to existed before the copy started
		switch s {
		case SRef:
			u.assume(guard, c.Or(c.Eq(v, c.Nil()), c.Lt(c.Root(v), u.dcBound)))
		case SSlice:
			u.assume(guard, c.Or(c.Eq(c.SArr(v), c.Nil()), c.Lt(c.Root(c.SArr(v)), u.dcBound)))
		}
		switch tt := t.Underlying().(type) {
		case *types.Pointer:
			isNil := c.Eq(v, c.Nil())
			var sub *Term
			if depth > 0 && !strings.HasPrefix(typeName(tt.Elem()), "k8s.io/api/") && !strings.HasPrefix(typeName(tt.Elem()), "k8s.io/apimachinery/pkg/apis/meta/v1.ManagedFieldsEntry") {
				sub = u.deepCopyObj(st, c.And(guard, c.Not(isNil)), v, tt.Elem(), depth-1)
			} else {
				sub = u.allocObj(st)
			}
			u.store(st, dst, t, leaf(c.Ite(isNil, c.Nil(), sub)))
		case *types.Slice:
			isNil := c.Eq(c.SArr(v), c.Nil())
			arr := u.allocObj(st)
			u.assume(guard, c.Eq(u.rootType(c.Root(arr)), u.arrTypeID(tt.Elem())))
			ns := c.MkSlice(arr, c.Int(0), c.SLen(v), c.SLen(v))
			// element-wise equality of scalar leaves; nil-ness of reference leaves
			i := c.BoundVar("dc", SInt)
			var sl, dl []leafLoc
			u.leafAddrs(c.SElem(v, i), tt.Elem(), &sl)
			u.leafAddrs(c.SElem(ns, i), tt.Elem(), &dl)
			if len(sl) > 10 {
				// large element types (containers, volumes ...): only length and nil-ness are carried over
				sl, dl = nil, nil
			}
			rng := c.And(c.Le(c.Int(0), i), c.Lt(i, c.SLen(v)))
			for x := range sl {
				a := u.heapArr(st, sl[x].Sort)
				lhs := c.mk("select", "", dl[x].Sort, a, dl[x].Addr)
				rhs := c.Select(a, sl[x].Addr)
				var body *Term
				switch sl[x].Sort {
				case SRef:
					body = c.Eq(c.Eq(lhs, c.Nil()), c.Eq(rhs, c.Nil()))
				case SSlice:
					body = c.And(c.Eq(c.SLen(lhs), c.SLen(rhs)), c.Eq(c.Eq(c.SArr(lhs), c.Nil()), c.Eq(c.SArr(rhs), c.Nil())))
				default:
					body = c.Eq(lhs, rhs)
				}
				u.assume(c.And(guard, c.Not(isNil)), c.Forall([]*Term{i}, c.Implies(rng, body), []*Term{lhs}))
			}
			u.store(st, dst, t, leaf(c.Ite(isNil, c.NilSlice(), ns)))
		case *types.Map:
			isNil := c.Eq(v, c.Nil())
			nm := u.allocObj(st)
			ks := u.mapKeySort(tt)
			dk := "MD:" + ks.Name
			dom := u.mapDom(st, ks)
			st.heap[dk] = c.Store(dom, nm, c.Select(dom, v))
			la := u.mapLenArr(st, ks)
			st.heap["ML:"+ks.Name] = c.Store(la, nm, c.Select(la, v))
			for _, ml := range u.mapValLeaves(tt) {
				arr := u.heapGet(st, ml.key, ArraySort(SRef, ArraySort(ks, ml.sort)))
				st.heap[ml.key] = c.Store(arr, nm, c.Select(arr, v))
			}
			u.store(st, dst, t, leaf(c.Ite(isNil, c.Nil(), nm)))
		default:
			if s == SRef {
				// interface-typed (or other reference-like) leaf: the real copy holds a copy of the dynamic value;
				// modelled as an unknown new reference with the same nil-ness
				nu := u.allocObj(st)
				u.store(st, dst, t, leaf(c.Ite(c.Eq(v, c.Nil()), c.Nil(), nu)))
			} else {
				u.store(st, dst, t, leaf(v))
			}
		}
		_ = s
		return
	}
	switch tt := t.Underlying().(type) {
	case *types.Struct:
		for i := 0; i < tt.NumFields(); i++ {
			fid := u.e.lay.fieldID(t, tt, i)
			u.deepCopyInto(st, guard, c.Fld(src, fid), c.Fld(dst, fid), tt.Field(i).Type(), depth)
		}
	case *types.Array:
		for i := int64(0); i < tt.Len(); i++ {
			u.deepCopyInto(st, guard, c.Elm(src, c.Int(i)), c.Elm(dst, c.Int(i)), tt.Elem(), depth)
		}
	}
}
