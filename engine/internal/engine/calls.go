package engine

import (
	"fmt"
	"go/token"
	"go/types"
	"sort"
	"strings"

	"golang.org/x/tools/go/ssa"
)

// packages whose functions are assumed not to write memory visible to the caller (results havocked).
var heapPurePkgs = map[string]bool{
	"github.com/go-logr/logr": true, "fmt": true, "strings": true, "errors": true, "time": true, "strconv": true,
	"math/rand": true, "math": true, "regexp": true, "context": true, "unicode": true, "unicode/utf8": true,
	"k8s.io/apimachinery/pkg/labels": true, "k8s.io/apimachinery/pkg/api/errors": true,
	"k8s.io/apimachinery/pkg/util/errors": true, "k8s.io/apimachinery/pkg/api/equality": true,
	"k8s.io/apimachinery/pkg/conversion": true,
	"k8s.io/apimachinery/pkg/util/intstr": true, "k8s.io/apimachinery/pkg/api/resource": true,
	"k8s.io/apimachinery/pkg/apis/meta/v1":                            true,
	"github.com/DataDog/extendeddaemonset/pkg/controller/metrics": true,
	"k8s.io/client-go/tools/record":                                true,
	"sync":                                                         true,
	"crypto/md5": true, "encoding/hex": true, "encoding/json": true, "io": true, "hash": true,
	"k8s.io/apimachinery/pkg/types": true,
	"k8s.io/apimachinery/pkg/fields": true, "k8s.io/apimachinery/pkg/selection": true,
	"k8s.io/api/core/v1": true,
}

func (u *Unit) execCall(fc *frameCtx, st *State, pc *Term, t *ssa.Call) {
	call := t.Common()
	c := u.c
	var args []*SV
	setResult := func(res []*SV) {
		sig := call.Signature()
		switch sig.Results().Len() {
		case 0:
		case 1:
			fc.vals[t] = res[0]
		default:
			fc.vals[t] = &SV{F: res}
		}
	}
	if call.IsInvoke() {
		recv := u.val(fc, call.Value)
		args = append(args, recv)
		for _, a := range call.Args {
			args = append(args, u.val(fc, a))
		}
		if !fc.spec {
			u.safety("nil", "invoke-"+call.Method.Name(), pc, c.Neq(recv.T, c.Nil()), "method call on nil interface", t.Pos())
		}
		name := methodKey(call.Method)
		if res, ok := u.clientCall(fc, name, call.Method.Type().(*types.Signature), args, st, pc, t.Pos()); ok {
			setResult(res)
			return
		}
		con := u.e.contracts[name]
		setResult(u.callByContractOrDefault(fc, name, con, call.Method.Type().(*types.Signature), true, call.Method.Pkg(), args, st, pc, t.Pos()))
		return
	}
	for _, a := range call.Args {
		args = append(args, u.val(fc, a))
	}
	switch callee := call.Value.(type) {
	case *ssa.Builtin:
		fc.vals[t] = u.builtin(fc, st, pc, callee.Name(), call.Args, args, t)
		return
	case *ssa.Function:
		setResult(u.callFunction(fc, callee, args, st, pc, fc.spec))
		return
	case *ssa.MakeClosure:
		fn := callee.Fn.(*ssa.Function)
		var fvs []*SV
		for _, b := range callee.Bindings {
			fvs = append(fvs, u.val(fc, b))
		}
		setResult(u.inlineCall(fc, fn, args, fvs, st, pc, fc.spec))
		return
	}
	// dynamic call through a function value
	fv := u.val(fc, call.Value)
	if cl, ok := u.closures[fv.T]; ok {
		setResult(u.inlineCall(fc, cl.fn, args, cl.bindings, st, pc, fc.spec))
		return
	}
	u.warn("call through unknown function value in %s: everything havocked", fc.fn.Name())
	u.havoc(st, pc, &FrameSpec{Any: true})
	setResult(u.freshResults("dyn", call.Signature(), st, pc))
}

func methodKey(m *types.Func) string {
	sig := m.Type().(*types.Signature)
	if sig.Recv() != nil {
		rt := sig.Recv().Type()
		if p, ok := rt.(*types.Pointer); ok {
			return "(*" + typeName(p.Elem()) + ")." + m.Name()
		}
		return "(" + typeName(rt) + ")." + m.Name()
	}
	if m.Pkg() != nil {
		return m.Pkg().Path() + "." + m.Name()
	}
	return m.Name()
}

func (u *Unit) freshResults(hint string, sig *types.Signature, st *State, pc *Term) []*SV {
	var out []*SV
	for i := 0; i < sig.Results().Len(); i++ {
		out = append(out, u.freshSV(fmt.Sprintf("%s_r%d", hint, i), sig.Results().At(i).Type(), st, pc))
	}
	return out
}

// callFunction dispatches a static call.
func (u *Unit) callFunction(fc *frameCtx, fn *ssa.Function, args []*SV, st *State, pc *Term, spec bool) []*SV {
	name := fn.String()
	if fn.Origin() != nil {
		name = fn.Origin().String()
	}
	con := u.e.contracts[name]
	if name == "sigs.k8s.io/controller-runtime/pkg/controller/controllerutil.SetControllerReference" && !spec && len(args) >= 2 {
		// assumed contract: writes only metadata.ownerReferences of the controlled object; error unconstrained
		u.usedTrusted["assumed contract: "+name+" (writes only the controlled object's ownerReferences)"] = true
		_, fv := u.ifaceFns()
		obj := u.c.App(fv, args[1].T)
		fr := &FrameSpec{Roots: []*Term{u.c.Root(obj)}}
		if stt := u.ifaceStatic[args[1].T.id]; stt != nil {
			if pt, ok := stt.Underlying().(*types.Pointer); ok {
				if sst, ok := pt.Elem().Underlying().(*types.Struct); ok {
					for i := 0; i < sst.NumFields(); i++ {
						if sst.Field(i).Name() == "ObjectMeta" {
							om := u.c.Fld(obj, u.e.lay.fieldID(pt.Elem(), sst, i))
							if ost, ok := sst.Field(i).Type().Underlying().(*types.Struct); ok {
								for j := 0; j < ost.NumFields(); j++ {
									if ost.Field(j).Name() == "OwnerReferences" {
										var locs []leafLoc
										u.leafAddrs(u.c.Fld(om, u.e.lay.fieldID(sst.Field(i).Type(), ost, j)), ost.Field(j).Type(), &locs)
										fr = &FrameSpec{Leaves: locs}
									}
								}
							}
						}
					}
				}
			}
		}
		u.checkCalleeFrame(fc, pc, fr, name, token.NoPos)
		u.havoc(st, pc, fr)
		return u.freshResults("SetControllerReference", fn.Signature, st, pc)
	}
	if name == "sort.Slice" && !spec && len(args) == 2 && con == nil {
		if res, ok := u.sortSliceCall(fc, args[0].T, st, pc); ok {
			return res
		}
	}
	if name == "sort.Sort" && !spec && len(args) == 1 && con == nil {
		if res, ok := u.sortSortCall(fc, args[0].T, st, pc); ok {
			return res
		}
	}
	if name == "sort.Strings" && !spec && len(args) == 1 && con == nil {
		return u.sortStringsCall(fc, args[0].T, st, pc)
	}
	if con == nil && isDeepCopy(fn) {
		if spec {
			specFail("DeepCopy used in a specification")
		}
		return u.deepCopyCall(fn, args, st, pc)
	}
	if con != nil && con.Transparent || con == nil && u.e.autoTransparent(fn) {
		if con != nil {
			u.usedContracts[name] = true
		}
		if len(fn.Blocks) == 0 {
			panic(unsupported("transparent function %s has no body", name))
		}
		return u.inlineCall(fc, fn, args, nil, st, pc, spec)
	}
	var pkg *types.Package
	if fn.Pkg != nil {
		pkg = fn.Pkg.Pkg
	} else if fn.Object() != nil {
		pkg = fn.Object().Pkg()
	}
	return u.callByContractOrDefault(fc, name, con, fn.Signature, false, pkg, args, st, pc, token.NoPos)
}

func (u *Unit) inlineCall(fc *frameCtx, fn *ssa.Function, args, fvs []*SV, st *State, pc *Term, spec bool) []*SV {
	if u.inlineDepth > 6 {
		panic(unsupported("inlining too deep at %s", fn.Name()))
	}
	u.inlineDepth++
	defer func() { u.inlineDepth-- }()
	work := st
	if spec {
		work = st.clone()
	}
	rets := u.runBodyIn(fc, fn, args, fvs, work, pc, spec)
	nres := fn.Signature.Results().Len()
	if len(rets) == 0 {
		// callee never returns on this path
		u.assume(pc, u.c.False())
		var out []*SV
		for i := 0; i < nres; i++ {
			out = append(out, u.zeroSV(fn.Signature.Results().At(i).Type()))
		}
		return out
	}
	var edges []edge
	for _, r := range rets {
		edges = append(edges, edge{nil, r.guard, r.st})
	}
	_, merged := u.mergeStates(edges)
	if !spec {
		*st = *merged
	}
	out := make([]*SV, nres)
	for i := 0; i < nres; i++ {
		var acc *SV
		for j := len(rets) - 1; j >= 0; j-- {
			if acc == nil {
				acc = rets[j].vals[i]
			} else {
				acc = u.iteSV(rets[j].guard, rets[j].vals[i], acc)
			}
		}
		out[i] = acc
	}
	return out
}

// runBodyIn runs an inlined callee; loops inside are not allowed.
func (u *Unit) runBodyIn(fc *frameCtx, fn *ssa.Function, args, fvs []*SV, st *State, pc *Term, spec bool) []retPoint {
	fi := u.e.info(fn)
	if len(fi.loops) > 0 {
		panic(unsupported("inlined function %s contains a loop (give it a contract)", fn.Name()))
	}
	rets := u.runBody(fn, args, fvs, st, pc, false, nil, spec)
	return rets
}

// callByContractOrDefault applies a contract (assert pre, havoc frame, assume post) or the default policy.
func (u *Unit) callByContractOrDefault(fc *frameCtx, name string, con *Contract, sig *types.Signature, invoke bool, pkg *types.Package, args []*SV, st *State, pc *Term, pos token.Pos) []*SV {
	c := u.c
	spec := fc == nil || fc.spec
	if con == nil {
		pp := ""
		if pkg != nil {
			pp = pkg.Path()
		}
		if heapPurePkgs[pp] || strings.HasPrefix(pp, "k8s.io/api/") {
			u.usedTrusted["default-noheap: "+name] = true
			return u.freshResults(shortName(name), sig, st, pc)
		}
		if spec {
			specFail("function %s used in a specification has no contract", name)
		}
		u.warn("call to %s has no contract: whole heap havocked", name)
		u.usedTrusted["default-havoc: "+name] = true
		u.havoc(st, pc, &FrameSpec{Any: true})
		return u.freshResults(shortName(name), sig, st, pc)
	}
	if con.External || con.Trusted {
		u.usedTrusted["assumed contract: "+name] = true
	} else {
		u.usedContracts[name] = true
	}
	// parameter environment
	env := u.contractEnv(con, sig, invoke, args, st, pc, name)
	// preconditions
	if !spec {
		for i, r := range con.Requires {
			p := env.EvalBool(r.E)
			label := r.Label
			if label == "" {
				label = fmt.Sprintf("%d", i)
			}
			if p.IsTrue() {
				continue
			}
			o := u.oblige("pre", shortName(name)+"-"+label, r.Tags, pc, p, "precondition of "+shortName(name)+": "+r.Src, pos)
			_ = o
			u.assume(pc, p)
		}
	}
	pre := st.clone()
	nres := sig.Results().Len()
	var res []*SV
	if con.Pure {
		res = u.pureApp(name, con, sig, args, st, pc, env)
	} else {
		if !con.NoHeap {
			if spec {
				specFail("non-pure function %s used in a specification", name)
			}
			fr := u.frameOf(con, env)
			u.checkCalleeFrame(fc, pc, fr, name, pos)
			allocBefore := st.alloc
			u.havoc(st, pc, fr)
			if con.Logs || con.ModAny {
				if fc != nil && !fc.spec {
					u.checkLogAllowed(fc, pc, name, pos)
				}
				lenBefore := u.logLen(st)
				u.logHavoc(st, pc)
				u.sentAllocatedDuring(st, pc, lenBefore, allocBefore)
			}
		}
		res = u.freshResults(shortName(name), sig, st, pc)
	}
	// postconditions
	post := u.contractEnv(con, sig, invoke, args, st, pc, name)
	post.calleePost = true
	oldEnv := *env
	oldEnv.st = pre
	post.old = &oldEnv
	u.bindResults(post, sig, res)
	if con.Pure {
		key := "pureax|" + name + "|" + termIDs(res) + fmt.Sprintf("|%d", st.alloc.id)
		if u.pureApps[key] {
			return res
		}
		u.pureApps[key] = true
	}
	// only assume the postcondition when the precondition holds (pure functions are total UFs)
	var preAll *Term = c.True()
	if con.Pure {
		var ps []*Term
		for _, r := range con.Requires {
			ps = append(ps, env.EvalBool(r.E))
		}
		preAll = c.And(ps...)
	}
	for _, en := range con.Ensures {
		p := post.EvalBool(en.E)
		u.assume(c.And(pc, preAll), p)
	}
	_ = nres
	return res
}

func termIDs(vs []*SV) string {
	var b strings.Builder
	for _, v := range vs {
		for _, l := range v.leaves(nil) {
			fmt.Fprintf(&b, "%d,", l.id)
		}
	}
	return b.String()
}

func shortName(full string) string {
	// strip package paths: keep the last path element
	out := full
	for {
		i := strings.Index(out, "/")
		if i < 0 {
			break
		}
		// remove up to and including the last slash of the leading path segment
		j := strings.LastIndexAny(out[:i], "(* ")
		out = out[:j+1] + out[i+1:]
	}
	return out
}

func (u *Unit) bindResults(env *SpecEnv, sig *types.Signature, res []*SV) {
	for i := 0; i < sig.Results().Len(); i++ {
		rv := sig.Results().At(i)
		sv := specVal{v: res[i], t: rv.Type()}
		name := "result"
		if i > 0 {
			name = fmt.Sprintf("result%d", i)
		}
		env.vars[name] = sv
		if rv.Name() != "" && rv.Name() != "_" {
			if _, clash := env.vars[rv.Name()]; !clash {
				env.vars[rv.Name()] = sv
			}
		}
	}
}

// contractEnv binds parameter names of the callee to argument values.
func (u *Unit) contractEnv(con *Contract, sig *types.Signature, invoke bool, args []*SV, st *State, pc *Term, name string) *SpecEnv {
	env := &SpecEnv{u: u, st: st, vars: map[string]specVal{}, guard: pc, fnName: name}
	env.pkg = u.e.typesPkg(con.PkgPath)
	env.imports = u.e.importsFor(con)
	env.lets = map[string]Expr{}
	for _, l := range con.Lets {
		env.lets[l.Name] = l.E
	}
	i := 0
	bind := func(n string, t types.Type, v *SV, pos int) {
		sv := specVal{v: v, t: t}
		if n != "" && n != "_" {
			env.vars[n] = sv
		}
		env.vars[fmt.Sprintf("arg%d", pos)] = sv
	}
	if sig.Recv() != nil {
		rn := sig.Recv().Name()
		rt := sig.Recv().Type()
		env.vars["recv"] = specVal{v: args[0], t: rt}
		if rn != "" && rn != "_" {
			env.vars[rn] = specVal{v: args[0], t: rt}
		}
		if len(con.Params) > 0 {
			env.vars[con.Params[0]] = specVal{v: args[0], t: rt}
		}
		i = 1
	}
	for p := 0; p < sig.Params().Len(); p++ {
		pv := sig.Params().At(p)
		if i+p >= len(args) {
			break
		}
		bind(pv.Name(), pv.Type(), args[i+p], p)
		if k := p + i; len(con.Params) > k {
			env.vars[con.Params[k]] = specVal{v: args[i+p], t: pv.Type()}
		}
	}
	return env
}

// pureApp builds the uninterpreted application f(args..., heaps read).
type pureCall struct {
	res   []*Term
	leaves []leafLoc
	heaps map[string]*Term // heap key -> array at the time of the application
}

func (u *Unit) pureApp(name string, con *Contract, sig *types.Signature, args []*SV, st *State, pc *Term, env *SpecEnv) []*SV {
	c := u.c
	var ts []*Term
	var sorts []*Sort
	for _, a := range args {
		for _, l := range a.leaves(nil) {
			ts = append(ts, l)
			sorts = append(sorts, l.Sort)
		}
	}
	reads := u.e.readSet(name, con)
	var footprint *FrameSpec
	if len(con.ReadLocs) > 0 && env != nil {
		footprint = &FrameSpec{}
		for _, m := range con.ReadLocs {
			u.addModifies(footprint, env, m)
		}
		if len(footprint.Maps) > 0 {
			footprint = nil
		}
	}
	if footprint != nil {
		// the function depends on the heap only through its declared footprint: the values of the listed locations
		// and the versions of the listed objects
		reads = nil
		for _, l := range footprint.Leaves {
			v := c.Select(u.heapArr(st, l.Sort), l.Addr)
			if l.Cond != nil {
				v = c.Ite(l.Cond, v, u.zeroLeaf(l.Sort))
			}
			ts = append(ts, v)
			sorts = append(sorts, l.Sort)
		}
		for _, R := range footprint.Roots {
			for _, srt := range []*Sort{SBool, SInt, SRef, SSlice, SStr} {
				ts = append(ts, u.objVer(u.heapArr(st, srt), R))
				sorts = append(sorts, SInt)
			}
		}
	}
	for _, k := range reads {
		// the heap enters the application as a version token, not as an array value: applications on the
		// syntactically same heap are congruent, and solvers never have to decide equality of array terms
		arr := u.heapGetKey(st, k)
		ts = append(ts, u.heapToken(arr))
		sorts = append(sorts, SInt)
	}
	var out []*SV
	for i := 0; i < sig.Results().Len(); i++ {
		rt := sig.Results().At(i).Type()
		n := 0
		var build func(t types.Type) *SV
		build = func(t types.Type) *SV {
			if s := u.leafSort(t); s != nil {
				f := c.Func(fmt.Sprintf("pf_%s#%d.%d", sanitizeSym(name), i, n), sorts, s)
				n++
				x := c.App(f, ts...)
				u.assumeTypeInv(x, t, st, pc)
				return leaf(x)
			}
			stt, ok := t.Underlying().(*types.Struct)
			if !ok {
				panic(unsupported("pure function result of type %s", t))
			}
			v := &SV{F: []*SV{}}
			for j := 0; j < stt.NumFields(); j++ {
				v.F = append(v.F, build(stt.Field(j).Type()))
			}
			return v
		}
		out = append(out, build(rt))
	}
	return out
}

func termListEq(a, b []*Term) bool {
	for i := range a {
		if a[i] != b[i] {
			return false
		}
	}
	return true
}

// heapGetKey materialises an array by key, reconstructing its sort from the key.
func (u *Unit) heapGetKey(st *State, key string) *Term {
	if a, ok := st.heap[key]; ok {
		return a
	}
	parts := strings.Split(key, ":")
	switch parts[0] {
	case "H":
		return u.heapGet(st, key, ArraySort(SRef, mkSort(strings.Join(parts[1:], ":"))))
	case "MD":
		ks := mkSort(parts[1])
		return u.heapGet(st, key, ArraySort(SRef, ArraySort(ks, SBool)))
	case "ML":
		return u.heapGet(st, key, ArraySort(SRef, SInt))
	case "MV":
		ks := mkSort(parts[1])
		vs := mkSort(strings.Join(parts[3:], ":"))
		return u.heapGet(st, key, ArraySort(SRef, ArraySort(ks, vs)))
	}
	panic("bad heap key " + key)
}

// frameOf evaluates a contract's modifies clause in the pre-state.
func (u *Unit) frameOf(con *Contract, env *SpecEnv) *FrameSpec {
	if con.ModAny {
		return &FrameSpec{Any: true}
	}
	fr := &FrameSpec{}
	for _, m := range con.Modifies {
		u.addModifies(fr, env, m)
	}
	return fr
}

func (u *Unit) addModifies(fr *FrameSpec, env *SpecEnv, m Expr) {
	c := u.c
	if call, ok := m.(*ECall); ok {
		if id, ok := call.Fun.(*EIdent); ok {
			switch id.Name {
			case "elems", "obj", "mapof":
				// the location expression may dereference nil pointers on the way (p.f with p == nil): then it
				// names nothing (root 0 / the nil map), not whatever the heap holds at the nil address
				lv := env.force(env.evalLazy(call.Args[0]))
				if lv.v == nil || lv.v.T == nil {
					specFail("expression is not a scalar: %s", exprString(call.Args[0]))
				}
				t := lv.v.T
				def := lv.def
				switch id.Name {
				case "elems": // whole backing array of a slice
					// (not guarded by definedness: a conditional root defeats the syntactic separation of frames
					// that the larger units depend on; an undefined path makes the frame larger, never smaller)
					fr.Roots = append(fr.Roots, c.Root(c.SArr(t)))
				case "obj": // whole object a pointer points into
					r := c.Root(t)
					if def != nil {
						r = c.Ite(def, r, c.Int(0))
					}
					fr.Roots = append(fr.Roots, r)
				case "mapof":
					fr.Maps = append(fr.Maps, t)
				}
				return
			}
		}
	}
	v := env.evalLazy(m)
	// *p / p.f / s[i]: an lvalue -> its leaves; a pointer-typed rvalue p -> leaves of *p
	withCond := func(locs []leafLoc, cond *Term) []leafLoc {
		for i := range locs {
			locs[i].Cond = cond
		}
		return locs
	}
	if un, ok := m.(*EUnary); ok && un.Op == "*" {
		var locs []leafLoc
		u.leafAddrs(v.addr, v.t, &locs)
		fr.Leaves = append(fr.Leaves, withCond(locs, v.def)...)
		return
	}
	if v.addr != nil && v.t != nil {
		var locs []leafLoc
		u.leafAddrs(v.addr, v.t, &locs)
		fr.Leaves = append(fr.Leaves, withCond(locs, v.def)...)
		return
	}
	if pt, ok := derefType(v.t); ok {
		v = env.force(v)
		var locs []leafLoc
		u.leafAddrs(v.v.T, pt, &locs)
		nn := c.Neq(v.v.T, c.Nil())
		if v.def != nil {
			nn = c.And(v.def, nn)
		}
		fr.Leaves = append(fr.Leaves, withCond(locs, nn)...)
		return
	}
	specFail("modifies: %s is not a location", exprString(m))
}

// checkCalleeFrame: what the callee may write must be writable by this unit and by enclosing loops.
func (u *Unit) checkCalleeFrame(fc *frameCtx, pc *Term, fr *FrameSpec, name string, pos token.Pos) {
	c := u.c
	type ctxFrame struct {
		fr    *FrameSpec
		bound *Term
		label string
	}
	var ctxs []ctxFrame
	if u.frame != nil && !u.frame.Any {
		ctxs = append(ctxs, ctxFrame{u.frame, u.alloc0, "call-" + shortName(name)})
	}
	if fc != nil {
		for _, al := range fc.active {
			if al.frame != nil && !al.frame.Any {
				ctxs = append(ctxs, ctxFrame{al.frame, al.bound, fmt.Sprintf("loop%d-call-%s", al.li.ordinal, shortName(name))})
			}
		}
	}
	for _, cx := range ctxs {
		if fr.Any {
			u.oblige("frame", cx.label, nil, pc, c.False(), "callee "+shortName(name)+" may modify anything", pos)
			continue
		}
		var props []*Term
		for _, r := range fr.Roots {
			// root 0 is the backing array of a nil slice: nothing is written there
			alts := []*Term{c.Ge(r, cx.bound), c.Eq(r, c.Int(0))}
			for _, x := range cx.fr.Roots {
				alts = append(alts, c.Eq(r, x))
			}
			props = append(props, c.Or(alts...))
		}
		for _, l := range fr.Leaves {
			ok := u.allowedBy(cx.fr, cx.bound, l)
			if l.Cond != nil {
				ok = c.Implies(l.Cond, ok)
			}
			props = append(props, ok)
		}
		for _, m := range fr.Maps {
			alts := []*Term{c.Ge(c.Root(m), cx.bound), c.Eq(m, c.Nil())}
			for _, x := range cx.fr.Maps {
				alts = append(alts, c.Eq(m, x))
			}
			props = append(props, c.Or(alts...))
		}
		p := c.And(props...)
		if !p.IsTrue() {
			u.oblige("frame", cx.label, nil, pc, p, "callee "+shortName(name)+" writes outside the frame", pos)
		}
	}
}

// ---------------------------------------------------------------------------
// builtins
// ---------------------------------------------------------------------------

func (u *Unit) builtin(fc *frameCtx, st *State, pc *Term, name string, argVals []ssa.Value, args []*SV, t *ssa.Call) *SV {
	c := u.c
	switch name {
	case "len":
		switch tt := argVals[0].Type().Underlying().(type) {
		case *types.Slice:
			return leaf(c.SLen(args[0].T))
		case *types.Basic:
			return leaf(u.strLen(args[0].T))
		case *types.Map:
			return leaf(u.mapLen(st, tt, args[0].T))
		case *types.Pointer:
			return leaf(c.Int(tt.Elem().Underlying().(*types.Array).Len()))
		case *types.Array:
			return leaf(c.Int(tt.Len()))
		case *types.Chan:
			return u.freshSV("chanlen", types.Typ[types.Int], st, pc)
		}
	case "cap":
		switch tt := argVals[0].Type().Underlying().(type) {
		case *types.Slice:
			return leaf(c.SCap(args[0].T))
		case *types.Array:
			return leaf(c.Int(tt.Len()))
		case *types.Chan:
			return u.freshSV("chancap", types.Typ[types.Int], st, pc)
		}
	case "min", "max":
		acc := args[0].T
		for _, a := range args[1:] {
			var pick *Term
			if name == "min" {
				pick = c.Le(acc, a.T)
			} else {
				pick = c.Ge(acc, a.T)
			}
			acc = c.Ite(pick, acc, a.T)
		}
		return leaf(acc)
	case "delete":
		mt := argVals[0].Type().Underlying().(*types.Map)
		m := args[0].T
		// delete on a nil map is a no-op
		work := st.clone()
		u.mapWrite(fc, work, c.And(pc, c.Neq(m, c.Nil())), mt, m, args[1].T, nil, false)
		_, merged := u.mergeStates([]edge{{nil, c.Neq(m, c.Nil()), work}, {nil, c.Eq(m, c.Nil()), st}})
		*st = *merged
		return nil
	case "append":
		return u.builtinAppend(fc, st, pc, argVals, args, t)
	case "copy":
		u.warn("builtin copy not modelled precisely (destination havocked)")
		dst := args[0].T
		fr := &FrameSpec{Roots: []*Term{c.Root(c.SArr(dst))}}
		u.checkCalleeFrame(fc, pc, fr, "copy", t.Pos())
		u.havoc(st, pc, fr)
		return u.freshSV("copied", types.Typ[types.Int], st, pc)
	case "print", "println":
		return nil
	case "close":
		return nil
	case "ssa:wrapnilchk":
		if !fc.spec {
			u.safety("nil", "wrapnilchk", pc, c.Neq(args[0].T, c.Nil()), "nil receiver", t.Pos())
		}
		return args[0]
	case "clear":
		panic(unsupported("builtin clear"))
	}
	panic(unsupported("builtin %s on %s", name, argVals[0].Type()))
}

func (u *Unit) builtinAppend(fc *frameCtx, st *State, pc *Term, argVals []ssa.Value, args []*SV, t *ssa.Call) *SV {
	c := u.c
	s := args[0].T
	stype, ok := argVals[0].Type().Underlying().(*types.Slice)
	if !ok {
		panic(unsupported("append on %s", argVals[0].Type()))
	}
	et := stype.Elem()
	if args[1].T == nil || args[1].T.Sort != SSlice {
		panic(unsupported("append(bytes, string)"))
	}
	extra := args[1].T
	k := c.SLen(extra)
	n := c.Add(c.SLen(s), k)
	fits := c.Le(n, c.SCap(s))
	var probe []leafLoc
	u.leafAddrs(c.SElem(s, c.Int(0)), et, &probe)
	// The result is described uniformly: res = (arrR, offR, n, capR). If the elements fit, arrR/offR/capR are those
	// of s (Go writes in place); otherwise arrR is a fresh array. The heap after the append is a new array per
	// element kind, related to the old one by copy / frame axioms.
	before := st.clone()
	arrNew := u.allocObj(st)
	u.assume(c.And(pc, c.Not(fits)), c.Eq(u.rootType(c.Root(arrNew)), u.arrTypeID(et)))
	arrR := c.Fresh("app_arr", SRef)
	offR := c.Fresh("app_off", SInt)
	capR := c.Fresh("app_cap", SInt)
	u.assume(pc, c.Ite(fits,
		c.And(c.Eq(arrR, c.SArr(s)), c.Eq(offR, c.SOff(s)), c.Eq(capR, c.SCap(s))),
		c.And(c.Eq(arrR, arrNew), c.Eq(offR, c.Int(0)), c.Le(n, capR))))
	res := c.MkSlice(arrR, offR, n, capR)
	kConst := int64(-1)
	if kv, isConst := k.IntVal(); isConst && kv.IsInt64() && kv.Int64() <= 4 {
		kConst = kv.Int64()
	}
	// frame check for the in-place case
	inGuard := c.And(pc, fits, c.Gt(k, c.Int(0)))
	var written []leafLoc
	if kConst >= 0 {
		for j := int64(0); j < kConst; j++ {
			u.leafAddrs(c.SElem(res, c.Add(c.SLen(s), c.Int(j))), et, &written)
		}
		if len(written) > 0 && !inGuard.IsFalse() {
			var chk []leafLoc
			for j := int64(0); j < kConst; j++ {
				u.leafAddrs(c.SElem(s, c.Add(c.SLen(s), c.Int(j))), et, &chk)
			}
			u.checkWriteLocs(fc, inGuard, chk, t.Pos())
		}
	} else if !inGuard.IsFalse() {
		u.checkCalleeFrame(fc, inGuard, &FrameSpec{Roots: []*Term{c.Root(c.SArr(s))}}, "append", t.Pos())
	}
	// new heap arrays for the element kinds
	kinds := map[string]*Sort{}
	for _, l := range probe {
		kinds[heapKey(l.Sort)] = l.Sort
	}
	var keys []string
	for key := range kinds {
		keys = append(keys, key)
	}
	sort.Strings(keys)
	for _, key := range keys {
		srt := kinds[key]
		prev := u.heapArr(st, srt)
		na := c.Fresh("Happ_"+sanitizeSym(srt.Name), prev.Sort)
		st.heap[key] = na
		// other objects are untouched
		r := c.BoundVar("r", SRef)
		cond := c.Neq(c.Root(r), c.Root(arrR))
		u.assume(pc, c.Forall([]*Term{r}, c.Implies(cond, c.Eq(c.Select(na, r), c.Select(prev, r))), []*Term{c.mk("select", "", srt, na, r)}))
		rootOfRes := c.Root(arrR)
		u.addFrameAx(&frameAxiom{na: na, prev: prev, bv: r, cond: cond, guard: pc, at: len(u.assumptions),
			rootCond: func(R *Term) *Term { return c.Neq(R, rootOfRes) }})
		// in place: the rest of the array object is untouched
		if kConst >= 0 {
			r2 := c.BoundVar("r", SRef)
			conds := []*Term{fits, c.Eq(c.Root(r2), c.Root(arrR))}
			for _, w := range written {
				if w.Sort == srt {
					conds = append(conds, c.Neq(r2, w.Addr))
				}
			}
			cond2 := c.And(conds...)
			u.assume(pc, c.Forall([]*Term{r2}, c.Implies(cond2, c.Eq(c.Select(na, r2), c.Select(prev, r2))), []*Term{c.mk("select", "", srt, na, r2)}))
			u.addFrameAx(&frameAxiom{na: na, prev: prev, bv: r2, cond: cond2, guard: pc, at: len(u.assumptions)})
		}
	}
	// old elements keep their values, new elements are the appended values
	u.copyElems(st, before, pc, res, c.Int(0), s, c.Int(0), c.SLen(s), et)
	u.copyElems(st, before, pc, res, c.SLen(s), extra, c.Int(0), k, et)
	return leaf(res)
}

// copyElems asserts dst[doff+i] == src[soff+i] (src read in state `from`) for 0 <= i < n, leaf by leaf.
func (u *Unit) copyElems(to, from *State, guard *Term, dst, doff, src, soff, n *Term, et types.Type) {
	c := u.c
	if nv, ok := n.IntVal(); ok && nv.IsInt64() && nv.Int64() <= 4 {
		for j := int64(0); j < nv.Int64(); j++ {
			var dl, sl []leafLoc
			u.leafAddrs(c.SElem(dst, c.Add(doff, c.Int(j))), et, &dl)
			u.leafAddrs(c.SElem(src, c.Add(soff, c.Int(j))), et, &sl)
			for x := range dl {
				u.assume(guard, c.Eq(c.Select(u.heapArr(to, dl[x].Sort), dl[x].Addr), c.Select(u.heapArr(from, sl[x].Sort), sl[x].Addr)))
			}
		}
		return
	}
	i := c.BoundVar("ci", SInt)
	var dl, sl []leafLoc
	u.leafAddrs(c.SElem(dst, c.Add(doff, i)), et, &dl)
	u.leafAddrs(c.SElem(src, c.Add(soff, i)), et, &sl)
	for x := range dl {
		lhs := c.mk("select", "", dl[x].Sort, u.heapArr(to, dl[x].Sort), dl[x].Addr)
		rhs := c.Select(u.heapArr(from, sl[x].Sort), sl[x].Addr)
		u.assume(guard, c.Forall([]*Term{i}, c.Implies(c.And(c.Le(c.Int(0), i), c.Lt(i, n)), c.Eq(lhs, rhs)), []*Term{lhs}))
	}
}

// heapToken names a heap array term by an integer token (ite distributes, everything else is its own token).
func (u *Unit) heapToken(arr *Term) *Term {
	if arr.Op == "ite" {
		return u.c.Ite(arr.Args[0], u.heapToken(arr.Args[1]), u.heapToken(arr.Args[2]))
	}
	return u.c.Const("hv!"+itoa(arr.id), SInt)
}

func itoa(i int) string { return fmt.Sprintf("%d", i) }


// sortStringsCall: assumed contract of sort.Strings(x). Only the elements of x change; the new contents are a
// permutation of the old ones (a fresh injective index function perm with new[i] == old[perm(i)]) in non-decreasing order.
func (u *Unit) sortStringsCall(fc *frameCtx, x *Term, st *State, pc *Term) []*SV {
	c := u.c
	u.usedTrusted["assumed contract: sort.Strings (permutation of the elements, sorted)"] = true
	old := u.heapArr(st, SStr)
	fr := &FrameSpec{Roots: []*Term{c.Root(c.SArr(x))}, Kinds: map[string]bool{heapKey(SStr): true}}
	nonNil := c.Neq(c.SArr(x), c.Nil())
	g := c.And(pc, nonNil)
	u.checkCalleeFrame(fc, g, &FrameSpec{Roots: []*Term{c.Root(c.SArr(x))}}, "sort.Strings", token.NoPos)
	u.havoc(st, pc, fr)
	nw := u.heapArr(st, SStr)
	u.counters["perm"]++
	perm := c.Func(fmt.Sprintf("perm!%d", u.counters["perm"]), []*Sort{SInt}, SInt)
	i, j := c.BoundVar("pi", SInt), c.BoundVar("pj", SInt)
	in := func(k *Term) *Term { return c.And(c.Le(c.Int(0), k), c.Lt(k, c.SLen(x))) }
	ni := c.mk("select", "", SStr, nw, c.SElem(x, i))
	u.assume(g, c.Forall([]*Term{i}, c.Implies(in(i), c.And(in(c.App(perm, i)), c.Eq(ni, c.Select(old, c.SElem(x, c.App(perm, i)))))), []*Term{ni}))
	u.assume(g, c.Forall([]*Term{i, j}, c.Implies(c.And(in(i), in(j), c.Neq(i, j)), c.Neq(c.App(perm, i), c.App(perm, j))), []*Term{c.App(perm, i), c.App(perm, j)}))
	// other elements of the same backing array (outside the slice window) are untouched
	k := c.BoundVar("pk", SInt)
	outside := c.Or(c.Lt(k, c.SOff(x)), c.Ge(k, c.Add(c.SOff(x), c.SLen(x))))
	addr := c.Elm(c.SArr(x), k)
	nk := c.mk("select", "", SStr, nw, addr)
	u.assume(g, c.Forall([]*Term{k}, c.Implies(outside, c.Eq(nk, c.Select(old, addr))), []*Term{nk}))
	nj := c.mk("select", "", SStr, nw, c.SElem(x, j))
	u.assume(g, c.Forall([]*Term{i, j}, c.Implies(c.And(in(i), in(j), c.Lt(i, j)), c.Not(u.strLt(nj, ni))), []*Term{ni, nj}))
	return nil
}


// sortSortCall: assumed contract of sort.Sort(x) for x of a named slice type whose Len and Swap are the usual slice
// implementations (not checked). Only the elements of x change; they are a permutation of the old ones, and afterwards
// no later element is Less than an earlier one, where Less is the type's own method evaluated on the sorted slice.
func (u *Unit) sortSortCall(fc *frameCtx, data *Term, st *State, pc *Term) ([]*SV, bool) {
	c := u.c
	stt := u.ifaceStatic[data.id]
	if stt == nil {
		return nil, false
	}
	sl, ok := stt.Underlying().(*types.Slice)
	if !ok {
		return nil, false
	}
	es := u.leafSort(sl.Elem())
	if es == nil {
		return nil, false // composite elements: not modelled
	}
	var less *ssa.Function
	if nt, ok := stt.(*types.Named); ok {
		for i := 0; i < nt.NumMethods(); i++ {
			if nt.Method(i).Name() == "Less" {
				less = u.e.prog.FuncValue(nt.Method(i))
			}
		}
	}
	if less == nil {
		return nil, false
	}
	u.usedTrusted["assumed contract: sort.Sort on "+typeName(stt)+" (permutation of the elements, ordered by its Less; Len/Swap assumed standard)"] = true
	_, fv := u.ifaceFns()
	x := u.load(st, c.App(fv, data), stt, pc).T
	old := u.heapArr(st, es)
	nonNil := c.Neq(c.SArr(x), c.Nil())
	g := c.And(pc, nonNil)
	u.checkCalleeFrame(fc, g, &FrameSpec{Roots: []*Term{c.Root(c.SArr(x))}}, "sort.Sort", token.NoPos)
	u.havoc(st, pc, &FrameSpec{Roots: []*Term{c.Root(c.SArr(x))}, Kinds: map[string]bool{heapKey(es): true}})
	nw := u.heapArr(st, es)
	u.counters["perm"]++
	perm := c.Func(fmt.Sprintf("perm!%d", u.counters["perm"]), []*Sort{SInt}, SInt)
	inv := c.Func(fmt.Sprintf("perminv!%d", u.counters["perm"]), []*Sort{SInt}, SInt)
	i, j := c.BoundVar("pi", SInt), c.BoundVar("pj", SInt)
	in := func(k *Term) *Term { return c.And(c.Le(c.Int(0), k), c.Lt(k, c.SLen(x))) }
	ni := c.mk("select", "", es, nw, c.SElem(x, i))
	u.assume(g, c.Forall([]*Term{i}, c.Implies(in(i), c.And(in(c.App(perm, i)), c.Eq(c.App(inv, c.App(perm, i)), i), c.Eq(ni, c.Select(old, c.SElem(x, c.App(perm, i)))))), []*Term{ni}))
	// a bijection: every old position is the image of a new one
	u.assume(g, c.Forall([]*Term{j}, c.Implies(in(j), c.And(in(c.App(inv, j)), c.Eq(c.App(perm, c.App(inv, j)), j))), []*Term{c.App(inv, j)}))
	k := c.BoundVar("pk", SInt)
	outside := c.Or(c.Lt(k, c.SOff(x)), c.Ge(k, c.Add(c.SOff(x), c.SLen(x))))
	addr := c.Elm(c.SArr(x), k)
	nk := c.mk("select", "", es, nw, addr)
	u.assume(g, c.Forall([]*Term{k}, c.Implies(outside, c.Eq(nk, c.Select(old, addr))), []*Term{nk}))
	// ordering: for i < j, !Less(x, j, i) on the sorted contents
	u.specDepth++
	res := u.callFunction(nil, less, []*SV{leaf(x), leaf(j), leaf(i)}, st, c.And(g, in(i), in(j), c.Lt(i, j)), true)
	u.specDepth--
	if len(res) == 1 && res[0].T != nil {
		nj := c.mk("select", "", es, nw, c.SElem(x, j))
		u.assume(g, c.Forall([]*Term{i, j}, c.Implies(c.And(in(i), in(j), c.Lt(i, j)), c.Not(res[0].T)), []*Term{ni, nj}))
	}
	return nil, true
}


// sortSliceCall: assumed contract of sort.Slice(x, less): only the elements of the slice x change (an over-approximation
// of "they are permuted": nothing is assumed about the new contents); the comparison closure is not called by the model.
func (u *Unit) sortSliceCall(fc *frameCtx, data *Term, st *State, pc *Term) ([]*SV, bool) {
	c := u.c
	stt := u.ifaceStatic[data.id]
	if stt == nil {
		return nil, false
	}
	if _, ok := stt.Underlying().(*types.Slice); !ok {
		return nil, false
	}
	u.usedTrusted["assumed contract: sort.Slice (writes only the elements of the slice; new contents unconstrained; the less closure is not verified)"] = true
	_, fv := u.ifaceFns()
	x := u.load(st, c.App(fv, data), stt, pc).T
	g := c.And(pc, c.Neq(c.SArr(x), c.Nil()))
	fr := &FrameSpec{Roots: []*Term{c.Root(c.SArr(x))}}
	u.checkCalleeFrame(fc, g, fr, "sort.Slice", token.NoPos)
	u.havoc(st, pc, fr)
	return nil, true
}
