package engine

import (
	"os"
	"fmt"
	"go/token"
	"go/types"
	"strings"
)

// Ghost API call log. Every call on a controller-runtime client appends one entry
//   (verb, object, namespaced?, namespace)
// to an append-only sequence; contracts talk about it with loglen(), logverb(k), logobj(k), lognamespaced(k), logns(k).
// The error result of every call is unconstrained, so postconditions over the log hold on every failure path.
//
// State: ghost scalar "loglen" and arrays G:verb (Int->Str), G:obj (Int->Ref), G:nsd (Int->Bool), G:ns (Int->Str).

const clientPkg = "sigs.k8s.io/controller-runtime/pkg/client"

var clientVerbs = map[string]string{
	"(" + clientPkg + ".Reader).Get":                  "Get",
	"(" + clientPkg + ".Reader).List":                 "List",
	"(" + clientPkg + ".Writer).Create":               "Create",
	"(" + clientPkg + ".Writer).Update":               "Update",
	"(" + clientPkg + ".Writer).Patch":                "Patch",
	"(" + clientPkg + ".Writer).Delete":               "Delete",
	"(" + clientPkg + ".Writer).DeleteAllOf":          "DeleteAllOf",
	"(" + clientPkg + ".SubResourceWriter).Update":    "StatusUpdate",
	"(" + clientPkg + ".SubResourceWriter).Patch":     "StatusPatch",
	"(" + clientPkg + ".SubResourceWriter).Create":    "StatusCreate",
	"(" + clientPkg + ".StatusClient).Status":         "",
	"(" + clientPkg + ".SubResourceClientConstructor).SubResource": "",
}

func (u *Unit) logLen(st *State) *Term {
	if st.ghost == nil {
		st.ghost = map[string]*Term{}
	}
	if t, ok := st.ghost["loglen"]; ok {
		return t
	}
	t := u.c.Const("loglen0", SInt)
	u.assume(nil, u.c.Le(u.c.Int(0), t))
	st.ghost["loglen"] = t
	return t
}

func (u *Unit) logArr(st *State, field string, vs *Sort) *Term {
	return u.heapGet(st, "G:"+field, ArraySort(SInt, vs))
}

// logAppend records one API call.
func (u *Unit) logAppend(st *State, verb string, obj, namespaced, ns *Term, typ *Term) {
	c := u.c
	n := u.logLen(st)
	for _, f := range []string{"sent", "kns", "kname", "err"} {
		// keep these arrays materialised so that a later havoc preserves their prefix
		u.logArr(st, f, logFieldSort(f))
	}
	st.heap["G:typ"] = c.Store(u.logArr(st, "typ", SInt), n, typ)
	st.heap["G:verb"] = c.Store(u.logArr(st, "verb", SStr), n, c.Str(verb))
	st.heap["G:obj"] = c.Store(u.logArr(st, "obj", SRef), n, obj)
	st.heap["G:nsd"] = c.Store(u.logArr(st, "nsd", SBool), n, namespaced)
	st.heap["G:ns"] = c.Store(u.logArr(st, "ns", SStr), n, ns)
	st.ghost["loglen"] = c.Add(n, c.Int(1))
	u.logsUsed = true
}

// logHavoc: a callee (or loop) may have appended entries: the prefix is preserved.
func (u *Unit) logHavoc(st *State, guard *Term) {
	c := u.c
	n := u.logLen(st)
	nn := c.Fresh("loglen", SInt)
	u.assume(guard, c.Le(n, nn))
	for _, f := range []struct {
		name string
		s    *Sort
	}{{"verb", SStr}, {"obj", SRef}, {"nsd", SBool}, {"ns", SStr}, {"typ", SInt}, {"sent", SRef}, {"kns", SStr}, {"kname", SStr}, {"err", SBool}} {
		prev := u.logArr(st, f.name, f.s)
		na := c.Fresh("G_"+f.name, prev.Sort)
		k := c.BoundVar("lk", SInt)
		u.assume(guard, c.Forall([]*Term{k}, c.Implies(c.Lt(k, n), c.Eq(c.Select(na, k), c.Select(prev, k))), []*Term{c.mk("select", "", f.s, na, k)}))
		st.heap["G:"+f.name] = na
	}
	st.ghost["loglen"] = nn
	u.logsUsed = true
}

// sentAllocatedDuring: the ghost snapshot logsent(k) of an entry appended by a callee (or by earlier iterations of a loop) is an
// object allocated while that callee (loop) ran -- this is how the snapshot is defined (clientCall allocates it at the call) --
// so it is distinct from every object that existed before and is left alone by every later frame.
func (u *Unit) sentAllocatedDuring(st *State, guard *Term, lenBefore, allocBefore *Term) {
	c := u.c
	if os.Getenv("GOVC_NO_SENTFRESH") != "" {
		return
	}
	k := c.BoundVar("lk", SInt)
	sel := c.Select(u.logArr(st, "sent", SRef), k)
	in := c.And(c.Le(lenBefore, k), c.Lt(k, u.logLen(st)))
	fresh := c.And(c.Le(allocBefore, c.Root(sel)), c.Lt(c.Root(sel), st.alloc), c.Eq(c.PathOf(sel), c.PNil()))
	u.assume(guard, c.Forall([]*Term{k}, c.Implies(in, fresh), []*Term{sel}))
}

// clientCall models one method of the controller-runtime client interfaces. Returns nil if name is not one.
func (u *Unit) clientCall(fc *frameCtx, name string, sig *types.Signature, args []*SV, st *State, pc *Term, pos token.Pos) ([]*SV, bool) {
	verb, ok := clientVerbs[name]
	if !ok {
		return nil, false
	}
	c := u.c
	u.usedTrusted["assumed contract (controller-runtime client, error unconstrained): "+shortName(name)] = true
	if verb == "" {
		// Status() / SubResource(): a non-nil writer
		r := c.Fresh("subres", SRef)
		u.assume(pc, c.Neq(r, c.Nil()))
		return []*SV{leaf(r)}, true
	}
	// args: recv, ctx, obj/key..., opts
	objIdx := 2
	if verb == "Get" {
		objIdx = 3
	}
	if objIdx >= len(args) {
		return nil, false
	}
	_, fv := u.ifaceFns()
	obj := c.App(fv, args[objIdx].T)
	namespaced, ns := c.False(), c.Str("")
	if verb == "List" || verb == "DeleteAllOf" {
		namespaced, ns = u.listNamespace(st, pc, args[len(args)-1].T)
	}
	if !fc.spec {
		u.checkLogAllowed(fc, pc, name, pos)
	}
	ftT, _ := u.ifaceFns()
	u.logAppend(st, verb, obj, namespaced, ns, c.App(ftT, args[objIdx].T))
	n0 := c.Sub(u.logLen(st), c.Int(1))
	if verb == "Get" && len(args[2].F) == 2 {
		// the ObjectKey{Namespace, Name} asked for
		st.heap["G:kns"] = c.Store(u.logArr(st, "kns", SStr), n0, args[2].F[0].T)
		st.heap["G:kname"] = c.Store(u.logArr(st, "kname", SStr), n0, args[2].F[1].T)
	}
	if u.wantsSent && verb != "Get" && verb != "List" && verb != "DeleteAllOf" {
		// ghost snapshot of the object as sent: a field-by-field (shallow) copy taken before the answer overwrites
		// the metadata; maps and slices reachable from it are shared with the original
		if stt := u.ifaceStatic[args[objIdx].T.id]; stt != nil {
			if pt, ok := stt.Underlying().(*types.Pointer); ok {
				snap := u.allocObj(st)
				var sl, dl []leafLoc
				u.leafAddrs(obj, pt.Elem(), &sl)
				u.leafAddrs(snap, pt.Elem(), &dl)
				for i := range sl {
					a := u.heapArr(st, sl[i].Sort)
					st.heap[heapKey(sl[i].Sort)] = c.Store(a, dl[i].Addr, u.readThrough(a, sl[i].Addr, pc))
				}
				st.heap["G:sent"] = c.Store(u.logArr(st, "sent", SRef), n0, snap)
			}
		}
	}
	// Reads (re)fill the whole object passed in. Writes send the object; what comes back differs from what was
	// sent only in the object's metadata (resourceVersion, generation, uid, timestamps ...): spec and status of the
	// object in memory stay what the caller put there. (On an error the object is left as it was.)
	switch verb {
	case "Get", "List":
		fr := &FrameSpec{Roots: []*Term{c.Root(obj)}}
		u.checkCalleeFrame(fc, pc, fr, name, pos)
		before := st.alloc
		u.havoc(st, pc, fr)
		// Assumed: the decoder builds a tree of newly allocated objects. Every reference held by the object read into, or
		// by an object allocated during the call, is nil or refers to an object allocated during the call. Only assumed
		// when the object passed was allocated by the function under verification itself (every call site in the
		// repository passes a newly allocated empty object; decoding into a used object could keep its maps).
		u.usedTrusted["assumed: objects filled by client Get/List hold only references allocated by that call"] = true
		after := st.alloc
		inNew := func(x *Term) *Term { return c.And(c.Le(before, c.Root(x)), c.Lt(c.Root(x), after)) }
		a := c.BoundVar("fa", SRef)
		region := c.Or(c.Eq(c.Root(a), c.Root(obj)), inNew(a))
		pc := c.And(pc, c.Ge(c.Root(obj), u.alloc0))
		rsel := c.mk("select", "", SRef, u.heapArr(st, SRef), a)
		u.assume(pc, c.Forall([]*Term{a}, c.Implies(region, c.Or(c.Eq(rsel, c.Nil()), inNew(rsel))), []*Term{rsel}))
		ssel := c.mk("select", "", SSlice, u.heapArr(st, SSlice), a)
		u.assume(pc, c.Forall([]*Term{a}, c.Implies(region, c.Or(c.Eq(c.SArr(ssel), c.Nil()), inNew(c.SArr(ssel)))), []*Term{ssel}))
		u.freshRegions = append(u.freshRegions, freshRegion{guard: pc, before: before, after: after, objRoot: c.Root(obj), refArr: u.heapArr(st, SRef), slArr: u.heapArr(st, SSlice)})
		if verb == "List" {
			u.listNamesDistinct(st, pc, obj, args[objIdx].T, namespaced)
		}
	case "Create", "Update", "Patch", "StatusUpdate", "StatusPatch":
		fr := &FrameSpec{Roots: []*Term{c.Root(obj)}}
		if stt := u.ifaceStatic[args[objIdx].T.id]; stt != nil {
			if pt, ok := stt.Underlying().(*types.Pointer); ok {
				if sst, ok := pt.Elem().Underlying().(*types.Struct); ok {
					for i := 0; i < sst.NumFields(); i++ {
						if sst.Field(i).Name() == "ObjectMeta" {
							var locs []leafLoc
							u.leafAddrs(c.Fld(obj, u.e.lay.fieldID(pt.Elem(), sst, i)), sst.Field(i).Type(), &locs)
							fr = &FrameSpec{Leaves: locs}
						}
					}
				}
			}
		}
		u.checkCalleeFrame(fc, pc, fr, name, pos)
		u.havoc(st, pc, fr)
	}
	res := u.freshResults(shortName(name), sig, st, pc)
	if n := len(res); n > 0 && res[n-1].T != nil && res[n-1].T.Sort == SRef {
		// ghost: whether the call reported an error (logfailed(k))
		st.heap["G:err"] = c.Store(u.logArr(st, "err", SBool), c.Sub(u.logLen(st), c.Int(1)), c.Neq(res[n-1].T, c.Nil()))
	}
	if verb == "Get" && len(args[2].F) == 2 && len(res) == 1 && res[0].T != nil {
		// Assumed about the API server: a successful Get returns the object stored under the key asked for.
		if stt := u.ifaceStatic[args[objIdx].T.id]; stt != nil {
			if pt, ok := stt.Underlying().(*types.Pointer); ok {
				if sst, ok := pt.Elem().Underlying().(*types.Struct); ok {
					for i := 0; i < sst.NumFields(); i++ {
						ost, ok := sst.Field(i).Type().Underlying().(*types.Struct)
						if sst.Field(i).Name() != "ObjectMeta" || !ok {
							continue
						}
						om := c.Fld(obj, u.e.lay.fieldID(pt.Elem(), sst, i))
						for j := 0; j < ost.NumFields(); j++ {
							var want *Term
							switch ost.Field(j).Name() {
							case "Namespace":
								want = args[2].F[0].T
							case "Name":
								want = args[2].F[1].T
							default:
								continue
							}
							u.usedTrusted["assumed: a successful client Get returns the object named by the key"] = true
							got := c.Select(u.heapArr(st, SStr), c.Fld(om, u.e.lay.fieldID(sst.Field(i).Type(), ost, j)))
							u.assume(c.And(pc, c.Eq(res[0].T, c.Nil())), c.Eq(got, want))
						}
					}
				}
			}
		}
	}
	return res, true
}

// listNamespace inspects a literal option slice for a namespace restriction.
func (u *Unit) listNamespace(st *State, pc *Term, opts *Term) (*Term, *Term) {
	c := u.c
	if opts.Op == "ite" {
		a1, a2 := u.listNamespace(st, pc, opts.Args[1])
		b1, b2 := u.listNamespace(st, pc, opts.Args[2])
		return c.Ite(opts.Args[0], a1, b1), c.Ite(opts.Args[0], a2, b2)
	}
	n, ok := c.SLen(opts).IntVal()
	if !ok || !n.IsInt64() || n.Int64() > 8 {
		return c.Fresh("namespaced", SBool), c.Fresh("ns", SStr)
	}
	ft, fv := u.ifaceFns()
	namespaced, ns := c.False(), c.Str("")
	inNS := u.e.lookupType(clientPkg, "InNamespace")
	lo := u.e.lookupType(clientPkg, "ListOptions")
	for j := n.Int64() - 1; j >= 0; j-- {
		x := c.Select(u.heapArr(st, SRef), c.SElem(opts, c.Int(j)))
		ty := c.App(ft, x)
		payload := c.App(fv, x)
		if inNS != nil {
			isIn := c.Eq(ty, u.typeID(inNS))
			val := u.load(st, payload, inNS, pc).T
			namespaced = c.Ite(isIn, c.True(), namespaced)
			ns = c.Ite(isIn, val, ns)
		}
		if lo != nil {
			isLO := c.Eq(ty, u.typeID(types.NewPointer(lo)))
			stt := lo.Underlying().(*types.Struct)
			for i := 0; i < stt.NumFields(); i++ {
				if stt.Field(i).Name() == "Namespace" {
					val := c.Select(u.heapArr(st, SStr), c.Fld(payload, u.e.lay.fieldID(lo, stt, i)))
					has := c.And(isLO, c.Neq(val, c.Str("")))
					namespaced = c.Ite(has, c.True(), namespaced)
					ns = c.Ite(has, val, ns)
				}
			}
		}
	}
	return namespaced, ns
}

func (e *Engine) lookupType(pkg, name string) types.Type {
	p := e.typesPkg(pkg)
	if p == nil {
		return nil
	}
	obj := p.Scope().Lookup(name)
	if obj == nil {
		return nil
	}
	return obj.Type()
}

// checkLogAllowed: a unit that performs API calls must say so ("logs" in its contract), as must enclosing loops.
func (u *Unit) checkLogAllowed(fc *frameCtx, pc *Term, name string, pos token.Pos) {
	if u.con != nil && !u.con.Logs && !u.con.ModAny {
		u.oblige("frame", "api-call-"+shortName(name), nil, pc, u.c.False(), "API call in a function whose contract does not declare 'logs'", pos)
	}
}

func logFieldSort(f string) *Sort {
	switch f {
	case "verb", "ns":
		return SStr
	case "obj", "sent":
		return SRef
	case "kns", "kname":
		return SStr
	case "typ":
		return SInt
	}
	return SBool
}

var _ = fmt.Sprintf
var _ = strings.HasPrefix


// listNamesDistinct: assumed about the API server: the objects returned by one List have pairwise distinct names when
// they all live in one namespace (a namespaced List) or are cluster-scoped nodes.
func (u *Unit) listNamesDistinct(st *State, pc *Term, obj, ifaceArg *Term, namespaced *Term) {
	c := u.c
	stt := u.ifaceStatic[ifaceArg.id]
	if stt == nil {
		return
	}
	pt, ok := stt.Underlying().(*types.Pointer)
	if !ok {
		return
	}
	lst, ok := pt.Elem().Underlying().(*types.Struct)
	if !ok {
		return
	}
	for i := 0; i < lst.NumFields(); i++ {
		if lst.Field(i).Name() != "Items" {
			continue
		}
		sl, ok := lst.Field(i).Type().Underlying().(*types.Slice)
		if !ok {
			return
		}
		est, ok := sl.Elem().Underlying().(*types.Struct)
		if !ok {
			return
		}
		cond := namespaced
		if typeName(pt.Elem()) == "k8s.io/api/core/v1.NodeList" {
			cond = c.True()
		}
		for j := 0; j < est.NumFields(); j++ {
			if est.Field(j).Name() != "ObjectMeta" {
				continue
			}
			ost, ok := est.Field(j).Type().Underlying().(*types.Struct)
			if !ok {
				return
			}
			for k := 0; k < ost.NumFields(); k++ {
				if ost.Field(k).Name() != "Name" {
					continue
				}
				u.usedTrusted["assumed: objects returned by one namespaced (or node) List have pairwise distinct names"] = true
				items := c.Select(u.heapArr(st, SSlice), c.Fld(obj, u.e.lay.fieldID(pt.Elem(), lst, i)))
				nameAt := func(ix *Term) *Term {
					e := c.SElem(items, ix)
					om := c.Fld(e, u.e.lay.fieldID(sl.Elem(), est, j))
					return c.mk("select", "", SStr, u.heapArr(st, SStr), c.Fld(om, u.e.lay.fieldID(est.Field(j).Type(), ost, k)))
				}
				a, b := c.BoundVar("la", SInt), c.BoundVar("lb", SInt)
				rng := c.And(c.Le(c.Int(0), a), c.Lt(a, b), c.Lt(b, c.SLen(items)))
				u.assume(c.And(pc, cond), c.Forall([]*Term{a, b}, c.Implies(rng, c.Neq(nameAt(a), nameAt(b))), []*Term{nameAt(a), nameAt(b)}))
			}
		}
	}
}
