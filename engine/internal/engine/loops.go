package engine

import (
	"go/token"
	"fmt"
	"os"
	"go/ast"
	"go/types"

	"golang.org/x/tools/go/ssa"
)

type loopRuntime struct {
	entryVals map[*ssa.Phi]*SV
	al       *activeLoop
	lc       *LoopContract
	decrease *Term // value of the variant at the loop head (arbitrary iteration)
}

// localResolver resolves source-level names at a loop header.
func (u *Unit) localResolver(fc *frameCtx, li *loopInfo, st *State, pc *Term, phiVals map[*ssa.Phi]*SV) func(string) (specVal, bool) {
	fn := fc.fn
	return func(name string) (specVal, bool) {
		if len(name) > 5 && name[:5] == "$phi:" {
			for _, in := range li.header.Instrs {
				if phi, ok := in.(*ssa.Phi); ok && phi.Name() == name[5:] {
					return specVal{v: phiVals[phi], t: phi.Type()}, true
				}
			}
			// a phi of an enclosing loop: its value is fixed while this loop runs
			for _, b := range fn.Blocks {
				if b == li.header || !b.Dominates(li.header) {
					continue
				}
				for _, in := range b.Instrs {
					if phi, ok := in.(*ssa.Phi); ok && phi.Name() == name[5:] {
						if v, ok := fc.vals[phi]; ok {
							return specVal{v: v, t: phi.Type()}, true
						}
					}
				}
			}
			return specVal{}, false
		}
		// 1. loop-carried variables: header phis by source name
		for _, in := range li.header.Instrs {
			phi, ok := in.(*ssa.Phi)
			if !ok {
				break
			}
			if phi.Comment == name {
				return specVal{v: phiVals[phi], t: phi.Type()}, true
			}
		}
		// 1b. variables carried by an enclosing loop or merged earlier (not changed at this loop's head): the closest
		// dominating phi of that name
		{
			var bestPhi *ssa.Phi
			for _, b := range fn.Blocks {
				if b == li.header || !b.Dominates(li.header) {
					continue
				}
				for _, in := range b.Instrs {
					phi, ok := in.(*ssa.Phi)
					if !ok {
						break
					}
					if phi.Comment == name {
						if _, ok := fc.vals[phi]; ok && (bestPhi == nil || bestPhi.Block().Dominates(b)) {
							bestPhi = phi
						}
					}
				}
			}
			if bestPhi != nil {
				// a later plain definition (debug reference) may still be closer: only take the phi when no
				// non-phi definition of the name lies between it and the loop
				closer := false
				for _, b := range fn.Blocks {
					if !b.Dominates(li.header) || b == li.header || !bestPhi.Block().Dominates(b) {
						continue
					}
					for _, in := range b.Instrs {
						if d, ok := in.(*ssa.DebugRef); ok && !d.IsAddr {
							if id, ok := d.Expr.(*ast.Ident); ok && id.Name == name {
								if _, isPhi := d.X.(*ssa.Phi); !isPhi {
									if _, defined := fc.vals[d.X]; defined {
										closer = true
									}
								}
							}
						}
					}
				}
				if !closer {
					return specVal{v: fc.vals[bestPhi], t: bestPhi.Type()}, true
				}
			}
		}
		// 2. parameters and free variables
		for _, p := range fn.Params {
			if p.Name() == name {
				return specVal{v: fc.vals[p], t: p.Type()}, true
			}
		}
		for _, fv := range fn.FreeVars {
			if fv.Name() == name {
				pt := fv.Type().Underlying().(*types.Pointer).Elem()
				a := fc.vals[fv].T
				return specVal{v: u.load(st, a, pt, pc), t: pt, addr: a}, true
			}
		}
		// 3. debug references dominating the header (latest in dominance order), and addressable locals
		var best ssa.Value
		var bestAddr bool
		var bestBlock *ssa.BasicBlock
		for _, b := range fn.Blocks {
			if !b.Dominates(li.header) || (b == li.header) {
				continue
			}
			for _, in := range b.Instrs {
				switch x := in.(type) {
				case *ssa.DebugRef:
					id, ok := x.Expr.(*ast.Ident)
					if !ok || id.Name != name {
						continue
					}
					if _, defined := fc.vals[x.X]; !defined {
						continue
					}
					if k, isConst := x.X.(*ssa.Const); isConst && k.Value == nil {
						continue // zero-value reference recorded at a := definition; the real value follows
					}
					if bestBlock == nil || bestBlock.Dominates(b) {
						best, bestAddr, bestBlock = x.X, x.IsAddr, b
					}
				case *ssa.Alloc:
					if x.Comment == name {
						if _, defined := fc.vals[x]; defined && (bestBlock == nil || bestBlock.Dominates(b)) {
							best, bestAddr, bestBlock = x, true, b
						}
					}
				}
			}
		}
		if best == nil {
			// no reference dominates the header: look at references anywhere whose *value* is defined before the loop
			for _, b := range fn.Blocks {
				for _, in := range b.Instrs {
					x, ok := in.(*ssa.DebugRef)
					if !ok {
						continue
					}
					id, ok := x.Expr.(*ast.Ident)
					if !ok || id.Name != name {
						continue
					}
					if _, defined := fc.vals[x.X]; !defined {
						continue
					}
					def, isInstr := x.X.(ssa.Instruction)
					if isInstr && (def.Block() == nil || !def.Block().Dominates(li.header) || li.blocks[def.Block()]) {
						continue
					}
					if _, isPhi := x.X.(*ssa.Phi); isPhi {
						continue
					}
					var db *ssa.BasicBlock
					if isInstr {
						db = def.Block()
					}
					if best == nil || (bestBlock != nil && db != nil && bestBlock.Dominates(db)) {
						best, bestAddr, bestBlock = x.X, x.IsAddr, db
					}
				}
			}
		}
		if os.Getenv("GOVC_DEBUG") == "4" {
			fmt.Fprintf(os.Stderr, "resolve %q at loop %d: best=%v addr=%v\n", name, li.ordinal, best, bestAddr)
			for _, b := range fn.Blocks {
				for _, in := range b.Instrs {
					if x, ok := in.(*ssa.DebugRef); ok {
						if id, ok := x.Expr.(*ast.Ident); ok && id.Name == name {
							_, def := fc.vals[x.X]
							fmt.Fprintf(os.Stderr, "   block %d dom=%v: X=%v (%T) defined=%v\n", b.Index, b.Dominates(li.header), x.X, x.X, def)
						}
					}
				}
			}
		}
		if best != nil {
			v := u.val(fc, best)
			if bestAddr {
				pt := best.Type().Underlying().(*types.Pointer).Elem()
				return specVal{v: u.load(st, v.T, pt, pc), t: pt, addr: v.T}, true
			}
			return specVal{v: v, t: best.Type()}, true
		}
		return specVal{}, false
	}
}

func (u *Unit) loopEnv(fc *frameCtx, li *loopInfo, st *State, pc *Term, phiVals map[*ssa.Phi]*SV) *SpecEnv {
	env := &SpecEnv{u: u, st: st, vars: map[string]specVal{}, guard: pc, fc: fc, li: li, fnName: u.name}
	if fc.con != nil {
		env.pkg = u.e.typesPkg(fc.con.PkgPath)
		env.imports = u.e.importsFor(fc.con)
		env.lets = map[string]Expr{}
		for _, l := range fc.con.Lets {
			env.lets[l.Name] = l.E
		}
	}
	env.resolve = u.localResolver(fc, li, st, pc, phiVals)
	if u.entryEnv != nil {
		o := *u.entryEnv
		env.old = &o
	}
	return env
}

func headerPhis(li *loopInfo) []*ssa.Phi {
	var out []*ssa.Phi
	for _, in := range li.header.Instrs {
		phi, ok := in.(*ssa.Phi)
		if !ok {
			break
		}
		out = append(out, phi)
	}
	return out
}

// loopHeader performs the invariant cut at a loop head.
func (u *Unit) loopHeader(fc *frameCtx, fi *fnInfo, li *loopInfo, st *State, pc *Term) {
	c := u.c
	if !fc.top || fc.con == nil {
		panic(unsupported("loop in inlined function %s", fc.fn.Name()))
	}
	lc := fc.con.Loops[li.ordinal]
	if lc == nil {
		panic(unsupported("loop %d of %s has no invariant", li.ordinal, fc.fn.Name()))
	}
	phis := headerPhis(li)
	entryVals := map[*ssa.Phi]*SV{}
	for _, p := range phis {
		entryVals[p] = fc.vals[p]
	}
	// 1. invariant holds on entry
	envIn := u.loopEnv(fc, li, st, pc, entryVals)
	envIn.loopBound = st.alloc
	for i, inv := range lc.Invariants {
		p := u.evalClause(envIn, inv)
		label := inv.Label
		if label == "" {
			label = fmt.Sprintf("%d", i)
		}
		u.oblige("inv-init", fmt.Sprintf("loop%d-%s", li.ordinal, label), inv.Tags, pc, p, "loop invariant on entry: "+inv.Src, li.pos)
	}
	// 2. frame of the loop
	fr := u.loopFrame(fc, li, lc, st, pc, envIn)
	al := &activeLoop{li: li, frame: fr, bound: st.alloc}
	fc.loops = append(fc.loops, al)
	// 3. havoc
	allocBeforeLoop := st.alloc
	u.havoc(st, pc, fr)
	if u.loopLogs(li) {
		lenBefore := u.logLen(st)
		u.logHavoc(st, pc)
		u.sentAllocatedDuring(st, pc, lenBefore, allocBeforeLoop)
	}
	newVals := map[*ssa.Phi]*SV{}
	for _, p := range phis {
		nv := u.freshSV(phiHint(p), p.Type(), st, pc)
		fc.vals[p] = nv
		newVals[p] = nv
	}
	for k, it := range st.iters {
		if nextInLoop(li, k) {
			n := *it
			n.pos = c.Fresh("iterpos", SInt)
			u.assume(pc, c.And(c.Le(it.pos, n.pos), c.Le(n.pos, it.n)))
			st.iters[k] = &n
		}
	}
	// slices carried around the loop keep their backing array or move to one allocated inside the loop
	for _, p := range phis {
		if _, ok := p.Type().Underlying().(*types.Slice); ok {
			ent := entryVals[p].T
			nv := newVals[p].T
			u.assume(pc, c.Or(c.Eq(c.Root(c.SArr(nv)), c.Root(c.SArr(ent))), c.Ge(c.Root(c.SArr(nv)), al.bound)))
		}
	}
	// compiler-generated range counters start at -1 and only grow
	for _, p := range phis {
		if p.Comment == "rangeindex" {
			u.assume(pc, c.Le(c.Int(-1), newVals[p].T))
			// ... and never pass the length that the range statement evaluated once before the loop: the header is
			//   i = phi + 1; if i < n (n defined outside the loop)
			for _, in := range li.header.Instrs {
				cmp, ok := in.(*ssa.BinOp)
				if !ok || cmp.Op != token.LSS {
					continue
				}
				inc, ok := cmp.X.(*ssa.BinOp)
				if !ok || inc.Op != token.ADD || inc.X != ssa.Value(p) {
					continue
				}
				if def, isInstr := cmp.Y.(ssa.Instruction); isInstr && def.Block() != nil && li.blocks[def.Block()] {
					continue
				}
				if n, ok := fc.vals[cmp.Y]; ok && n.T != nil && n.T.Sort == SInt {
					u.assume(pc, c.Lt(newVals[p].T, c.Ite(c.Le(c.Int(0), n.T), n.T, c.Int(0))))
				}
			}
		}
	}
	// 4. assume the invariant for an arbitrary iteration
	envH := u.loopEnv(fc, li, st, pc, newVals)
	envH.loopBound = al.bound
	for _, inv := range lc.Invariants {
		u.assume(pc, u.evalClause(envH, inv))
	}
	rt := &loopRuntime{al: al, lc: lc, entryVals: entryVals}
	if lc.Decreases != nil {
		rt.decrease = envH.evalTerm(lc.Decreases.E)
	}
	if fc.loopRT == nil {
		fc.loopRT = map[*loopInfo]*loopRuntime{}
	}
	fc.loopRT[li] = rt
}

func phiHint(p *ssa.Phi) string {
	if p.Comment != "" {
		return p.Comment
	}
	return p.Name()
}

func nextInLoop(li *loopInfo, rng ssa.Value) bool {
	for b := range li.blocks {
		for _, in := range b.Instrs {
			if nx, ok := in.(*ssa.Next); ok && nx.Iter == rng {
				return true
			}
		}
	}
	return false
}

func (u *Unit) evalClause(env *SpecEnv, cl *Clause) (t *Term) {
	defer func() {
		if r := recover(); r != nil {
			if se, ok := r.(specError); ok {
				panic(specError{fmt.Sprintf("%s: in %q: %s", u.name, cl.Src, se.msg)})
			}
			panic(r)
		}
	}()
	return env.EvalBool(cl.E)
}

// addEdge propagates an edge, or checks the invariant on a back edge.
func (u *Unit) addEdge(fc *frameCtx, fi *fnInfo, in map[*ssa.BasicBlock][]edge, from, to *ssa.BasicBlock, guard *Term, st *State) {
	if guard.IsFalse() {
		return
	}
	if !fi.isBack[[2]int{from.Index, to.Index}] {
		in[to] = append(in[to], edge{from, guard, st})
		return
	}
	li := fi.loops[to]
	rt := fc.loopRT[li]
	if rt == nil {
		panic(unsupported("back edge to a loop head that was not cut"))
	}
	c := u.c
	idx := predIndex(to, from)
	vals := map[*ssa.Phi]*SV{}
	for _, p := range headerPhis(li) {
		vals[p] = u.val(fc, p.Edges[idx])
	}
	work := st.clone()
	env := u.loopEnv(fc, li, work, guard, vals)
	env.loopBound = rt.al.bound
	for i, inv := range rt.lc.Invariants {
		p := u.evalClause(env, inv)
		label := inv.Label
		if label == "" {
			label = fmt.Sprintf("%d", i)
		}
		u.oblige("inv-pres", fmt.Sprintf("loop%d-%s", li.ordinal, label), inv.Tags, guard, p, "loop invariant preserved: "+inv.Src, li.pos)
	}
	for _, p := range headerPhis(li) {
		if _, ok := p.Type().Underlying().(*types.Slice); ok {
			ent := rt.entryVals[p].T
			nv := vals[p].T
			prop := c.Or(c.Eq(c.Root(c.SArr(nv)), c.Root(c.SArr(ent))), c.Ge(c.Root(c.SArr(nv)), rt.al.bound))
			if !prop.IsTrue() {
				u.oblige("inv-pres", fmt.Sprintf("loop%d-auto-backing-%s", li.ordinal, phiHint(p)), nil, guard, prop, "slice carried by the loop keeps its backing array or gets one allocated in the loop", li.pos)
			}
		}
	}
	if rt.decrease != nil {
		nv := env.evalTerm(rt.lc.Decreases.E)
		u.oblige("decreases", fmt.Sprintf("loop%d", li.ordinal), nil, guard, c.And(c.Le(c.Int(0), rt.decrease), c.Lt(nv, rt.decrease)), "loop variant decreases: "+rt.lc.Decreases.Src, li.pos)
	}
}

// loopFrame computes what the loop may write: declared, or inferred syntactically from the stores in the body.
func (u *Unit) loopFrame(fc *frameCtx, li *loopInfo, lc *LoopContract, st *State, pc *Term, env *SpecEnv) *FrameSpec {
	c := u.c
	if lc.HavocAll {
		return &FrameSpec{Any: true}
	}
	fr := &FrameSpec{Kinds: map[string]bool{}}
	if len(lc.Modifies) > 0 {
		for _, m := range lc.Modifies {
			u.addModifies(fr, env, m)
		}
	}
	declared := len(lc.Modifies) > 0
	inLoop := func(v ssa.Value) bool {
		in, ok := v.(ssa.Instruction)
		return ok && in.Block() != nil && li.blocks[in.Block()]
	}
	any := false
	addKindsOf := func(t types.Type) {
		var locs []leafLoc
		u.leafAddrs(c.Nil(), t, &locs)
		for _, l := range locs {
			fr.Kinds[heapKey(l.Sort)] = true
		}
	}
	// trace an address / slice value back to something defined outside the loop
	var traceAddr func(v ssa.Value, depth int) bool
	var traceSlice func(v ssa.Value, depth int) bool
	seen := map[ssa.Value]bool{}
	traceAddr = func(v ssa.Value, depth int) bool {
		if depth > 20 {
			return false
		}
		switch x := v.(type) {
		case *ssa.FieldAddr:
			return traceAddr(x.X, depth+1)
		case *ssa.IndexAddr:
			if _, ok := x.X.Type().Underlying().(*types.Slice); ok {
				return traceSlice(x.X, depth+1)
			}
			return traceAddr(x.X, depth+1)
		case *ssa.Alloc:
			if inLoop(x) {
				return true // allocated in the loop
			}
		}
		if !inLoop(v) {
			if sv, ok := fc.vals[v]; ok && sv.T != nil && sv.T.Sort == SRef {
				if !declared {
					fr.Roots = append(fr.Roots, c.Root(sv.T))
				}
				return true
			}
			if _, ok := v.(*ssa.Global); ok {
				if !declared {
					fr.Roots = append(fr.Roots, c.Root(u.globalAddr(v.(*ssa.Global))))
				}
				return true
			}
		}
		if call, ok := v.(*ssa.Call); ok && inLoop(v) {
			// result of a call inside the loop: fresh only if the callee says so; be conservative
			_ = call
		}
		return false
	}
	traceSlice = func(v ssa.Value, depth int) bool {
		if depth > 20 {
			return false
		}
		if seen[v] {
			return true
		}
		seen[v] = true
		switch x := v.(type) {
		case *ssa.Phi:
			if inLoop(x) {
				ok := true
				for _, e := range x.Edges {
					ok = traceSlice(e, depth+1) && ok
				}
				return ok
			}
		case *ssa.Slice:
			if inLoop(x) {
				if _, isSl := x.X.Type().Underlying().(*types.Slice); isSl {
					return traceSlice(x.X, depth+1)
				}
				return traceAddr(x.X, depth+1)
			}
		case *ssa.Call:
			if inLoop(x) {
				if b, ok := x.Call.Value.(*ssa.Builtin); ok && b.Name() == "append" {
					return traceSlice(x.Call.Args[0], depth+1)
				}
				return false
			}
		case *ssa.MakeSlice:
			if inLoop(x) {
				return true
			}
		case *ssa.Const:
			return true
		}
		if !inLoop(v) {
			if sv, ok := fc.vals[v]; ok && sv.T != nil && sv.T.Sort == SSlice {
				if !declared {
					fr.Roots = append(fr.Roots, c.Root(c.SArr(sv.T)))
				}
				return true
			}
			if _, ok := v.(*ssa.Const); ok {
				return true
			}
		}
		return false
	}
	// exact address of a loop-invariant field chain (base defined outside the loop, constant field steps)
	var exactAddr func(v ssa.Value, depth int) *Term
	exactAddr = func(v ssa.Value, depth int) *Term {
		if depth > 12 {
			return nil
		}
		if !inLoop(v) {
			if sv, ok := fc.vals[v]; ok && sv.T != nil && sv.T.Sort == SRef {
				return sv.T
			}
			return nil
		}
		if fa, ok := v.(*ssa.FieldAddr); ok {
			base := exactAddr(fa.X, depth+1)
			if base == nil {
				return nil
			}
			pt := fa.X.Type().Underlying().(*types.Pointer).Elem()
			return c.Fld(base, u.e.lay.fieldID(pt, pt.Underlying().(*types.Struct), fa.Field))
		}
		return nil
	}
	for b := range li.blocks {
		for _, in := range b.Instrs {
			switch x := in.(type) {
			case *ssa.Store:
				et := x.Addr.Type().Underlying().(*types.Pointer).Elem()
				addKindsOf(et)
				if !declared {
					if _, isAlloc := x.Addr.(*ssa.Alloc); !isAlloc {
						if a := exactAddr(x.Addr, 0); a != nil {
							var locs []leafLoc
							u.leafAddrs(a, et, &locs)
							fr.Leaves = append(fr.Leaves, locs...)
							continue
						}
					}
				}
				if !traceAddr(x.Addr, 0) && !declared {
					u.warn("loop %d of %s: store target not traceable, loop frame is 'everything'", li.ordinal, fc.fn.Name())
					any = true
				}
			case *ssa.MapUpdate:
				mt := x.Map.Type().Underlying().(*types.Map)
				u.addMapKinds(fr, mt)
				if !declared {
					if inLoop(x.Map) {
						any = true
					} else {
						fr.Maps = append(fr.Maps, u.val(fc, x.Map).T)
					}
				}
			case *ssa.Call:
				call := x.Common()
				if bi, ok := call.Value.(*ssa.Builtin); ok {
					switch bi.Name() {
					case "append":
						et := call.Args[0].Type().Underlying().(*types.Slice).Elem()
						addKindsOf(et)
						if !traceSlice(call.Args[0], 0) && !declared {
							u.warn("loop %d of %s: append target not traceable, loop frame is 'everything'", li.ordinal, fc.fn.Name())
							any = true
						}
					case "delete":
						mt := call.Args[0].Type().Underlying().(*types.Map)
						u.addMapKinds(fr, mt)
						if !declared {
							if inLoop(call.Args[0]) {
								any = true
							} else {
								fr.Maps = append(fr.Maps, u.val(fc, call.Args[0]).T)
							}
						}
					case "copy":
						any = true
					}
					continue
				}
				if u.callMayWrite(call) {
					if declared {
						fr.Kinds = nil // callee kinds unknown: all kinds, but only declared locations
					} else {
						u.warn("loop %d of %s: call to %s may write the heap, loop frame is 'everything' (add 'loop %d modifies ...')", li.ordinal, fc.fn.Name(), calleeName(call), li.ordinal)
						any = true
					}
				}
			}
		}
	}
	if any {
		u.warn("loop %d of %s: frame is 'everything' (a written map or object is computed inside the loop); add 'loop %d modifies ...'", li.ordinal, fc.fn.Name(), li.ordinal)
		return &FrameSpec{Any: true}
	}
	return fr
}

func (u *Unit) addMapKinds(fr *FrameSpec, mt *types.Map) {
	if fr.Kinds == nil {
		return
	}
	ks := u.mapKeySort(mt)
	fr.Kinds["MD:"+ks.Name] = true
	fr.Kinds["ML:"+ks.Name] = true
	for _, ml := range u.mapValLeaves(mt) {
		fr.Kinds[ml.key] = true
	}
}

func calleeName(call *ssa.CallCommon) string {
	if call.IsInvoke() {
		return methodKey(call.Method)
	}
	if f := call.StaticCallee(); f != nil {
		return f.String()
	}
	return "<dynamic>"
}

// callMayWrite: does this call possibly write caller-visible memory?
func (u *Unit) callMayWrite(call *ssa.CallCommon) bool {
	var name string
	var pkg *types.Package
	if call.IsInvoke() {
		name = methodKey(call.Method)
		pkg = call.Method.Pkg()
		if v, ok := clientVerbs[name]; ok {
			return !(v == "Delete" || v == "DeleteAllOf" || v == "")
		}
	} else if f := call.StaticCallee(); f != nil {
		name = f.String()
		if f.Origin() != nil {
			name = f.Origin().String()
		}
		if f.Pkg != nil {
			pkg = f.Pkg.Pkg
		} else if f.Object() != nil {
			pkg = f.Object().Pkg()
		}
		if con := u.e.contracts[name]; con == nil && isDeepCopy(f) {
			return false
		}
	} else {
		return true
	}
	if con := u.e.contracts[name]; con != nil {
		if con.Pure || con.NoHeap {
			return false
		}
		if con.Transparent {
			if f := call.StaticCallee(); f != nil {
				return u.e.fnWrites(f)
			}
		}
		if con.HasModifies && !con.ModAny && len(con.Modifies) == 0 {
			return false
		}
		return true
	}
	if pkg != nil && (heapPurePkgs[pkg.Path()]) {
		return false
	}
	return true
}

// loopLogs: does the loop body contain an API call or a call to a function whose contract declares 'logs'?
func (u *Unit) loopLogs(li *loopInfo) bool {
	for b := range li.blocks {
		for _, in := range b.Instrs {
			call, ok := in.(*ssa.Call)
			if !ok {
				continue
			}
			cc := call.Common()
			if cc.IsInvoke() {
				if _, ok := clientVerbs[methodKey(cc.Method)]; ok {
					return true
				}
				continue
			}
			if f := cc.StaticCallee(); f != nil {
				if con := u.e.contracts[f.String()]; con != nil && (con.Logs || con.ModAny) {
					return true
				}
			}
		}
	}
	return false
}
