package engine

import (
	"os"
	"go/token"
	"fmt"
	"go/constant"
	"go/types"
	"math/big"
	"strings"

	"golang.org/x/tools/go/ssa"
)

// specVal is the value of a specification expression.
type specVal struct {
	v    *SV
	t    types.Type // may be nil for untyped literals / spec-only values
	addr *Term      // address if the expression denotes a memory location
	isNil bool
	def  *Term // definedness: conjunction of "pointer dereferenced on the way is not nil" (nil = true)
}

type SpecEnv struct {
	u       *Unit
	st      *State
	old     *SpecEnv
	vars    map[string]specVal
	resolve func(name string) (specVal, bool)
	pkg     *types.Package
	imports map[string]string
	guard   *Term
	lets    map[string]Expr
	fc      *frameCtx
	li      *loopInfo
	fnName  string
	loopBound *Term
	// calleePost: the clause is an assumed postcondition of a callee: an object it calls fresh was allocated before it returned
	calleePost bool
}

func (env *SpecEnv) child() *SpecEnv {
	n := *env
	n.vars = map[string]specVal{}
	for k, v := range env.vars {
		n.vars[k] = v
	}
	return &n
}

type specError struct{ msg string }

func (e specError) Error() string { return e.msg }
func specFail(format string, args ...interface{}) {
	panic(specError{fmt.Sprintf(format, args...)})
}

// EvalBool evaluates a clause to a Bool term.
func (env *SpecEnv) EvalBool(e Expr) *Term {
	v := env.eval(e)
	if v.v == nil || v.v.T == nil || v.v.T.Sort != SBool {
		specFail("expression is not boolean: %s", exprString(e))
	}
	return v.v.T
}

func (env *SpecEnv) evalTerm(e Expr) *Term {
	v := env.eval(e)
	if v.v == nil || v.v.T == nil {
		specFail("expression is not a scalar: %s", exprString(e))
	}
	return v.v.T
}

func (env *SpecEnv) lookupPkg(alias string) *types.Package {
	if path, ok := env.imports[alias]; ok {
		return env.u.e.typesPkg(path)
	}
	// imports of the package under contract
	if env.pkg != nil {
		for _, imp := range env.pkg.Imports() {
			if imp.Name() == alias {
				return imp
			}
		}
	}
	return nil
}

func (env *SpecEnv) constVal(k *types.Const) specVal {
	u := env.u
	c := u.c
	t := k.Type()
	val := k.Val()
	switch val.Kind() {
	case constant.Bool:
		return specVal{v: leaf(c.Bool(constant.BoolVal(val))), t: t}
	case constant.String:
		return specVal{v: leaf(c.Str(constant.StringVal(val))), t: t}
	case constant.Int:
		bi, _ := new(big.Int).SetString(val.ExactString(), 10)
		return specVal{v: leaf(c.BigInt(bi)), t: t}
	case constant.Float:
		if iv := constant.ToInt(val); iv.Kind() == constant.Int {
			bi, _ := new(big.Int).SetString(iv.ExactString(), 10)
			return specVal{v: leaf(c.BigInt(bi)), t: t}
		}
	}
	specFail("unsupported constant %s", k.Name())
	return specVal{}
}

func (env *SpecEnv) objVal(obj types.Object) specVal {
	u := env.u
	switch o := obj.(type) {
	case *types.Const:
		return env.constVal(o)
	case *types.Var:
		// package-level variable
		g := u.e.globalFor(o)
		if g == nil {
			specFail("no SSA global for %s", o.Name())
		}
		et := g.Type().Underlying().(*types.Pointer).Elem()
		if v := u.immutableGlobal(g, env.st, env.guard); v != nil {
			return specVal{v: v, t: et}
		}
		addr := u.globalAddr(g)
		return specVal{v: u.load(env.st, addr, et, env.guard), t: et, addr: addr}
	case *types.Nil:
		return specVal{v: leaf(u.c.Nil()), isNil: true}
	}
	specFail("unsupported object %s", obj.Name())
	return specVal{}
}

func (env *SpecEnv) eval(e Expr) specVal { return env.force(env.evalLazy(e)) }

func (env *SpecEnv) evalLazy(e Expr) specVal {
	u := env.u
	c := u.c
	switch x := e.(type) {
	case *EInt:
		bi, _ := new(big.Int).SetString(x.Val, 10)
		return specVal{v: leaf(c.BigInt(bi))}
	case *EStr:
		return specVal{v: leaf(c.Str(x.Val))}
	case *EBool:
		return specVal{v: leaf(c.Bool(x.Val))}
	case *ENil:
		return specVal{v: leaf(c.Nil()), isNil: true}
	case *EIdent:
		if v, ok := env.vars[x.Name]; ok {
			return v
		}
		if le, ok := env.lets[x.Name]; ok {
			return env.evalLazy(le)
		}
		if env.resolve != nil {
			if v, ok := env.resolve(x.Name); ok {
				return v
			}
		}
		if env.pkg != nil {
			if obj := env.pkg.Scope().Lookup(x.Name); obj != nil {
				return env.objVal(obj)
			}
		}
		if obj := types.Universe.Lookup(x.Name); obj != nil {
			if k, ok := obj.(*types.Const); ok {
				return env.constVal(k)
			}
		}
		if env.li != nil {
			specFail("unknown identifier %q in %s (loop %d, header block %d)", x.Name, env.fnName, env.li.ordinal, env.li.header.Index)
		}
		specFail("unknown identifier %q in %s", x.Name, env.fnName)
	case *EOld:
		if env.old == nil {
			return env.eval(x.X)
		}
		o := *env.old
		merged := map[string]specVal{}
		for k, v := range env.old.vars {
			merged[k] = v
		}
		for k, v := range env.vars {
			if _, had := merged[k]; !had || v.v != nil && v.v.T != nil && v.v.T.isVar {
				merged[k] = v // quantified variables (and names unknown to the old environment) remain visible
			}
		}
		o.vars = merged
		o.lets = env.lets
		if o.resolve == nil {
			o.resolve = env.resolve
		}
		return o.evalLazy(x.X)
	case *EUnary:
		switch x.Op {
		case "!":
			return specVal{v: leaf(c.Not(env.EvalBool(x.X))), t: types.Typ[types.Bool]}
		case "-":
			v := env.eval(x.X)
			return specVal{v: leaf(c.Neg(v.v.T)), t: v.t}
		case "*":
			v := env.eval(x.X)
			pt, ok := derefType(v.t)
			if !ok {
				specFail("cannot dereference %s", exprString(x.X))
			}
			nn := c.Neq(v.v.T, c.Nil())
			if v.def != nil {
				nn = c.And(v.def, nn)
			}
			if u.leafSort(pt) == nil {
				return specVal{t: pt, addr: v.v.T, def: nn}
			}
			return specVal{v: u.load(env.st, v.v.T, pt, env.guard), t: pt, addr: v.v.T, def: nn}
		case "&":
			v := env.evalLazy(x.X)
			if v.addr == nil {
				specFail("cannot take the address of %s", exprString(x.X))
			}
			var pt types.Type
			if v.t != nil {
				pt = types.NewPointer(v.t)
			}
			return specVal{v: leaf(v.addr), t: pt}
		}
	case *EBinary:
		return env.evalBinary(x)
	case *ESel:
		return env.evalSel(x)
	case *EIndex:
		return env.evalIndex(x)
	case *ESliceE:
		s := env.evalTerm(x.X)
		lo := c.Int(0)
		if x.Lo != nil {
			lo = env.evalTerm(x.Lo)
		}
		hi := c.SLen(s)
		if x.Hi != nil {
			hi = env.evalTerm(x.Hi)
		}
		bv := env.eval(x.X)
		return specVal{v: leaf(c.MkSlice(c.SArr(s), c.Add(c.SOff(s), lo), c.Sub(hi, lo), c.Sub(c.SCap(s), lo))), t: bv.t}
	case *ECall:
		return env.evalCall(x)
	case *EQuant:
		ne := env.child()
		var bound []*Term
		for _, b := range x.Vars {
			s, t := env.binderSort(b.Type)
			bv := c.BoundVar(b.Name, s)
			bound = append(bound, bv)
			ne.vars[b.Name] = specVal{v: leaf(bv), t: t}
			if t != nil && s == SRef && os.Getenv("GOVC_NO_BINDERPTR") == "" {
				// a binder of pointer type ranges over pointers of that type: its instances and skolem constants are typed
				// (a *T cannot point into a backing array whose element type cannot contain a T)
				if pt, ok := t.Underlying().(*types.Pointer); ok {
					env.u.ptrFacts = append(env.u.ptrFacts, ptrFact{bv, pt.Elem(), nil, len(env.u.assumptions)})
				}
			}
		}
		body := ne.EvalBool(x.Body)
		if x.Forall {
			return specVal{v: leaf(c.Forall(bound, body)), t: types.Typ[types.Bool]}
		}
		return specVal{v: leaf(c.Exists(bound, body)), t: types.Typ[types.Bool]}
	}
	specFail("unsupported expression %s", exprString(e))
	return specVal{}
}

func derefType(t types.Type) (types.Type, bool) {
	if t == nil {
		return nil, false
	}
	if p, ok := t.Underlying().(*types.Pointer); ok {
		return p.Elem(), true
	}
	return nil, false
}

func (env *SpecEnv) binderSort(ty string) (*Sort, types.Type) {
	switch ty {
	case "int":
		return SInt, types.Typ[types.Int]
	case "int32":
		return SInt, types.Typ[types.Int32]
	case "int64":
		return SInt, types.Typ[types.Int64]
	case "mathint":
		return SInt, nil
	case "string":
		return SStr, types.Typ[types.String]
	case "bool":
		return SBool, types.Typ[types.Bool]
	case "ref":
		return SRef, nil
	case "time":
		return SInt, nil
	}
	t := env.resolveType(ty)
	s := env.u.leafSort(t)
	if s == nil {
		specFail("binder type %s is not a scalar", ty)
	}
	return s, t
}

func (env *SpecEnv) resolveType(ty string) types.Type {
	if strings.HasPrefix(ty, "*") {
		return types.NewPointer(env.resolveType(ty[1:]))
	}
	if strings.HasPrefix(ty, "[]") {
		return types.NewSlice(env.resolveType(ty[2:]))
	}
	if i := strings.Index(ty, "."); i > 0 {
		p := env.lookupPkg(ty[:i])
		if p == nil {
			specFail("unknown package %q in type %s", ty[:i], ty)
		}
		obj := p.Scope().Lookup(ty[i+1:])
		if obj == nil {
			specFail("unknown type %s", ty)
		}
		return obj.Type()
	}
	if obj := types.Universe.Lookup(ty); obj != nil {
		return obj.Type()
	}
	if env.pkg != nil {
		if obj := env.pkg.Scope().Lookup(ty); obj != nil {
			return obj.Type()
		}
	}
	specFail("unknown type %s", ty)
	return nil
}

func (env *SpecEnv) evalBinary(x *EBinary) specVal {
	u := env.u
	c := u.c
	tb := types.Typ[types.Bool]
	switch x.Op {
	case "&&":
		return specVal{v: leaf(c.And(env.EvalBool(x.X), env.EvalBool(x.Y))), t: tb}
	case "||":
		return specVal{v: leaf(c.Or(env.EvalBool(x.X), env.EvalBool(x.Y))), t: tb}
	case "==>":
		return specVal{v: leaf(c.Implies(env.EvalBool(x.X), env.EvalBool(x.Y))), t: tb}
	case "<==>":
		return specVal{v: leaf(c.Eq(env.EvalBool(x.X), env.EvalBool(x.Y))), t: tb}
	case "in":
		k := env.evalTerm(x.X)
		m := env.eval(x.Y)
		mt, ok := m.t.Underlying().(*types.Map)
		if !ok {
			specFail("'in' needs a map on the right: %s", exprString(x.Y))
		}
		_, found := u.mapRead(env.st, env.guard, mt, m.v.T, k)
		return specVal{v: leaf(found), t: tb}
	}
	a, b := env.eval(x.X), env.eval(x.Y)
	switch x.Op {
	case "==", "!=":
		var eq *Term
		switch {
		case a.v.T != nil && b.v.T != nil && a.v.T.Sort != b.v.T.Sort:
			// nil against slice
			if a.v.T.Sort == SSlice && b.isNil {
				eq = c.Eq(c.SArr(a.v.T), c.Nil())
			} else if b.v.T.Sort == SSlice && a.isNil {
				eq = c.Eq(c.SArr(b.v.T), c.Nil())
			} else {
				specFail("comparison of different sorts in %s (%s vs %s)", exprString(x), a.v.T.Sort.Name, b.v.T.Sort.Name)
			}
		case a.v.T != nil && b.v.T != nil:
			eq = c.Eq(a.v.T, b.v.T)
		case a.v.T == nil && b.v.T == nil:
			eq = u.eqSV(a.v, b.v)
		default:
			specFail("comparison of scalar and composite in %s", exprString(x))
		}
		if x.Op == "!=" {
			eq = c.Not(eq)
		}
		return specVal{v: leaf(eq), t: tb}
	}
	at, bt := a.v.T, b.v.T
	if at == nil || bt == nil {
		specFail("arithmetic on composite values in %s", exprString(x))
	}
	if at.Sort == SInt && bt.Sort == SReal {
		at = c.ToReal(at)
	}
	if at.Sort == SReal && bt.Sort == SInt {
		bt = c.ToReal(bt)
	}
	rt := a.t
	if rt == nil {
		rt = b.t
	}
	switch x.Op {
	case "<":
		if at.Sort == SStr {
			return specVal{v: leaf(u.strLt(at, bt)), t: tb}
		}
		return specVal{v: leaf(c.Lt(at, bt)), t: tb}
	case "<=":
		if at.Sort == SStr {
			return specVal{v: leaf(c.Not(u.strLt(bt, at))), t: tb}
		}
		return specVal{v: leaf(c.Le(at, bt)), t: tb}
	case ">":
		if at.Sort == SStr {
			return specVal{v: leaf(u.strLt(bt, at)), t: tb}
		}
		return specVal{v: leaf(c.Gt(at, bt)), t: tb}
	case ">=":
		if at.Sort == SStr {
			return specVal{v: leaf(c.Not(u.strLt(at, bt))), t: tb}
		}
		return specVal{v: leaf(c.Ge(at, bt)), t: tb}
	case "+":
		if at.Sort == SStr {
			f := c.Func("str_cat", []*Sort{SStr, SStr}, SStr)
			return specVal{v: leaf(c.App(f, at, bt)), t: rt}
		}
		return specVal{v: leaf(c.Add(at, bt)), t: rt}
	case "-":
		return specVal{v: leaf(c.Sub(at, bt)), t: rt}
	case "*":
		return specVal{v: leaf(c.Mul(at, bt)), t: rt}
	case "/":
		if at.Sort == SReal {
			return specVal{v: leaf(c.mk("/", "", SReal, at, bt)), t: rt}
		}
		return specVal{v: leaf(c.GoDiv(at, bt)), t: rt}
	case "%":
		return specVal{v: leaf(c.GoRem(at, bt)), t: rt}
	}
	specFail("unsupported operator %s", x.Op)
	return specVal{}
}

// selectField follows a (possibly promoted) field path from a base value.
func (env *SpecEnv) selectPath(base specVal, path []int) specVal {
	u := env.u
	cur := base
	def := base.def
	for _, idx := range path {
		t := cur.t
		// auto-deref
		if pt, ok := derefType(t); ok {
			cur = env.force(cur)
			nn := u.c.Neq(cur.v.T, u.c.Nil())
			if def == nil {
				def = nn
			} else {
				def = u.c.And(def, nn)
			}
			cur = specVal{v: nil, t: pt, addr: cur.v.T}
			t = pt
		}
		st, ok := t.Underlying().(*types.Struct)
		if !ok {
			specFail("field selection on non-struct %s", t)
		}
		ft := st.Field(idx).Type()
		if cur.addr != nil {
			a := u.c.Fld(cur.addr, u.e.lay.fieldID(t, st, idx))
			cur = specVal{v: nil, t: ft, addr: a}
			// load lazily only if leaf or at the end (done below)
			if u.leafSort(ft) != nil {
				cur.v = u.load(env.st, a, ft, env.guard)
			}
		} else {
			cur = specVal{v: cur.v.F[idx], t: ft}
		}
	}
	cur.def = def
	return cur
}

// force materialises a lazily loaded composite value.
func (env *SpecEnv) force(v specVal) specVal {
	if v.v == nil && v.addr != nil && v.t != nil {
		v.v = env.u.load(env.st, v.addr, v.t, env.guard)
	}
	return v
}

func (env *SpecEnv) evalSel(x *ESel) specVal {
	// package-qualified identifier?
	if id, ok := x.X.(*EIdent); ok {
		if _, isVar := env.vars[id.Name]; !isVar {
			if _, isLet := env.lets[id.Name]; !isLet {
				resolved := false
				if env.resolve != nil {
					_, resolved = env.resolve(id.Name)
				}
				if !resolved {
					if p := env.lookupPkg(id.Name); p != nil {
						obj := p.Scope().Lookup(x.Name)
						if obj == nil {
							specFail("unknown %s.%s", id.Name, x.Name)
						}
						return env.objVal(obj)
					}
				}
			}
		}
	}
	base := env.evalLazy(x.X)
	if base.t == nil {
		specFail("cannot select .%s on untyped value %s", x.Name, exprString(x.X))
	}
	// pseudo-fields on slices
	obj, path, _ := types.LookupFieldOrMethod(base.t, true, env.pkg, x.Name)
	if obj == nil {
		// try with the defining package of the type so that unexported fields resolve
		if n, ok := types.Unalias(deref1(base.t)).(*types.Named); ok && n.Obj().Pkg() != nil {
			obj, path, _ = types.LookupFieldOrMethod(base.t, true, n.Obj().Pkg(), x.Name)
		}
	}
	if obj == nil {
		specFail("no field %s on %s", x.Name, base.t)
	}
	if _, ok := obj.(*types.Var); !ok {
		specFail("%s.%s is a method; call it", exprString(x.X), x.Name)
	}
	return env.selectPath(base, path)
}

func deref1(t types.Type) types.Type {
	if p, ok := t.Underlying().(*types.Pointer); ok {
		return p.Elem()
	}
	return t
}

func (env *SpecEnv) evalIndex(x *EIndex) specVal {
	u := env.u
	c := u.c
	base := env.eval(x.X)
	if base.t == nil {
		specFail("index on untyped value")
	}
	switch tt := base.t.Underlying().(type) {
	case *types.Slice:
		i := env.evalTerm(x.I)
		a := c.SElem(base.v.T, i)
		if u.leafSort(tt.Elem()) == nil {
			return specVal{t: tt.Elem(), addr: a}
		}
		return specVal{v: u.load(env.st, a, tt.Elem(), env.guard), t: tt.Elem(), addr: a}
	case *types.Map:
		k := env.evalTerm(x.I)
		v, _ := u.mapRead(env.st, env.guard, tt, base.v.T, k)
		return specVal{v: v, t: tt.Elem()}
	case *types.Pointer:
		if at, ok := tt.Elem().Underlying().(*types.Array); ok {
			i := env.evalTerm(x.I)
			a := c.Elm(base.v.T, i)
			return specVal{v: u.load(env.st, a, at.Elem(), env.guard), t: at.Elem(), addr: a}
		}
	}
	specFail("cannot index %s", base.t)
	return specVal{}
}

func (env *SpecEnv) evalCall(x *ECall) specVal {
	u := env.u
	c := u.c
	// builtins
	if id, ok := x.Fun.(*EIdent); ok {
		switch id.Name {
		case "len":
			v := env.eval(x.Args[0])
			switch {
			case v.v.T != nil && v.v.T.Sort == SSlice:
				return specVal{v: leaf(c.SLen(v.v.T)), t: types.Typ[types.Int]}
			case v.v.T != nil && v.v.T.Sort == SStr:
				return specVal{v: leaf(u.strLen(v.v.T)), t: types.Typ[types.Int]}
			case v.t != nil:
				if mt, ok := v.t.Underlying().(*types.Map); ok {
					return specVal{v: leaf(u.mapLen(env.st, mt, v.v.T)), t: types.Typ[types.Int]}
				}
			}
			specFail("len of %s", exprString(x.Args[0]))
		case "cap":
			return specVal{v: leaf(c.SCap(env.evalTerm(x.Args[0]))), t: types.Typ[types.Int]}
		case "max", "min":
			acc := env.evalTerm(x.Args[0])
			for _, a := range x.Args[1:] {
				b := env.evalTerm(a)
				if id.Name == "max" {
					acc = c.Ite(c.Ge(acc, b), acc, b)
				} else {
					acc = c.Ite(c.Le(acc, b), acc, b)
				}
			}
			return specVal{v: leaf(acc), t: types.Typ[types.Int]}
		case "ite":
			g := env.EvalBool(x.Args[0])
			a, b := env.eval(x.Args[1]), env.eval(x.Args[2])
			t := a.t
			if t == nil {
				t = b.t
			}
			return specVal{v: u.iteSV(g, a.v, b.v), t: t}
		case "fresh":
			// allocated during the call/function: root >= old alloc
			v := env.evalTerm(x.Args[0])
			if v.Sort == SSlice {
				v = c.SArr(v)
			}
			bound := env.st.alloc
			if env.old != nil {
				bound = env.old.st.alloc
			}
			if env.calleePost && env.old != nil && os.Getenv("GOVC_NO_FRESHUB") == "" {
				return specVal{v: leaf(c.And(c.Neq(v, c.Nil()), c.Ge(c.Root(v), bound), c.Lt(c.Root(v), env.st.alloc), c.Eq(c.PathOf(v), c.PNil()))), t: types.Typ[types.Bool]}
			}
			return specVal{v: leaf(c.And(c.Neq(v, c.Nil()), c.Ge(c.Root(v), bound), c.Eq(c.PathOf(v), c.PNil()))), t: types.Typ[types.Bool]}
		case "freshroot":
			v := env.evalTerm(x.Args[0])
			if v.Sort == SSlice {
				v = c.SArr(v)
			}
			bound := env.st.alloc
			if env.old != nil {
				bound = env.old.st.alloc
			}
			if env.calleePost && env.old != nil && os.Getenv("GOVC_NO_FRESHUB") == "" {
				return specVal{v: leaf(c.And(c.Ge(c.Root(v), bound), c.Lt(c.Root(v), env.st.alloc))), t: types.Typ[types.Bool]}
			}
			return specVal{v: leaf(c.Ge(c.Root(v), bound)), t: types.Typ[types.Bool]}
		case "loopfresh":
			// allocated since the entry of the loop whose invariant this is (or nil)
			v := env.evalTerm(x.Args[0])
			if v.Sort == SSlice {
				v = c.SArr(v)
			}
			if env.loopBound == nil {
				specFail("loopfresh() outside a loop invariant")
			}
			return specVal{v: leaf(c.Or(c.Eq(v, c.Nil()), c.Ge(c.Root(v), env.loopBound))), t: types.Typ[types.Bool]}
		case "root":
			v := env.evalTerm(x.Args[0])
			if v.Sort == SSlice {
				v = c.SArr(v)
			}
			return specVal{v: leaf(c.Root(v))}
		case "int", "int32", "int64":
			v := env.eval(x.Args[0])
			return specVal{v: v.v, t: types.Universe.Lookup(id.Name).Type()}
		case "real":
			return specVal{v: leaf(c.ToReal(env.evalTerm(x.Args[0])))}
		case "iter":
			if len(x.Args) == 1 {
				// iter(N): completed iterations of the enclosing range loop with ordinal N
				n, ok := x.Args[0].(*EInt)
				if !ok || env.fc == nil {
					specFail("iter(N) needs a literal loop ordinal")
				}
				fi := u.e.fnInfos[env.fc.fn]
				if fi != nil {
					for _, l := range fi.loopsIn {
						if fmt.Sprint(l.ordinal) == n.Val {
							for _, in := range l.header.Instrs {
								if phi, ok := in.(*ssa.Phi); ok && phi.Comment == "rangeindex" {
									if v, ok := env.resolve("$phi:" + phi.Name()); ok {
										return specVal{v: leaf(c.Add(v.v.T, c.Int(1))), t: types.Typ[types.Int]}
									}
								}
							}
						}
					}
				}
				specFail("iter(%s): no enclosing range loop with that ordinal", n.Val)
			}
			return env.iterCount()
		case "iterkey":
			return env.iterKey(env.evalTerm(x.Args[0]))
		case "iteridx":
			return env.iterIdx(env.evalTerm(x.Args[0]))
		case "shapeeq":
			// scalareq plus: reference leaves are nil in both or in neither, slices have equal lengths
			a, b := env.eval(x.Args[0]), env.eval(x.Args[1])
			la, lb := a.v.leaves(nil), b.v.leaves(nil)
			if len(la) != len(lb) {
				specFail("shapeeq: different shapes")
			}
			var parts []*Term
			for i := range la {
				switch la[i].Sort {
				case SStr, SInt, SBool:
					parts = append(parts, c.Eq(la[i], lb[i]))
				case SRef:
					parts = append(parts, c.Eq(c.Eq(la[i], c.Nil()), c.Eq(lb[i], c.Nil())))
				case SSlice:
					parts = append(parts, c.Eq(c.SLen(la[i]), c.SLen(lb[i])), c.Eq(c.Eq(c.SArr(la[i]), c.Nil()), c.Eq(c.SArr(lb[i]), c.Nil())))
				}
			}
			return specVal{v: leaf(c.And(parts...)), t: types.Typ[types.Bool]}
		case "scalareq":
			// equality of the scalar (string / integer / boolean / time) leaves of two struct values; references and
			// slices are ignored (deep copies preserve scalars exactly)
			a, b := env.eval(x.Args[0]), env.eval(x.Args[1])
			la, lb := a.v.leaves(nil), b.v.leaves(nil)
			if len(la) != len(lb) {
				specFail("scalareq: different shapes")
			}
			var parts []*Term
			for i := range la {
				if la[i].Sort == SStr || la[i].Sort == SInt || la[i].Sort == SBool {
					parts = append(parts, c.Eq(la[i], lb[i]))
				}
			}
			return specVal{v: leaf(c.And(parts...)), t: types.Typ[types.Bool]}
		case "cast":
			// cast(x, "*pkg.Type"): view a reference (e.g. a logged object) at a Go type
			v := env.eval(x.Args[0])
			ts, ok := x.Args[1].(*EStr)
			if !ok {
				specFail("cast(x, \"type\") needs a string literal type")
			}
			return specVal{v: v.v, t: env.resolveType(ts.Val)}
		case "loglen":
			return specVal{v: leaf(u.logLen(env.st)), t: types.Typ[types.Int]}
		case "logverb", "logobj", "lognamespaced", "logns", "logtype", "logsent", "logkeyns", "logkeyname", "logfailed":
			k := env.evalTerm(x.Args[0])
			f := map[string]string{"logverb": "verb", "logobj": "obj", "lognamespaced": "nsd", "logns": "ns", "logtype": "typ", "logsent": "sent", "logkeyns": "kns", "logkeyname": "kname", "logfailed": "err"}[id.Name]
			var t types.Type
			if id.Name == "logverb" || id.Name == "logns" || id.Name == "logkeyns" || id.Name == "logkeyname" {
				t = types.Typ[types.String]
			}
			return specVal{v: leaf(c.Select(u.logArr(env.st, f, logFieldSort(f)), k)), t: t}
		case "lognew":
			k := env.evalTerm(x.Args[0])
			lo := u.logLen(env.st)
			if env.old != nil {
				lo = u.logLen(env.old.st)
			}
			return specVal{v: leaf(c.And(c.Le(lo, k), c.Lt(k, u.logLen(env.st)))), t: types.Typ[types.Bool]}
		case "ifaceval":
			_, fv := u.ifaceFns()
			return specVal{v: leaf(c.App(fv, env.evalTerm(x.Args[0])))}
		case "typeof":
			ft, _ := u.ifaceFns()
			return specVal{v: leaf(c.App(ft, env.evalTerm(x.Args[0])))}
		case "typeid":
			tn := exprString(x.Args[0])
			if es, ok := x.Args[0].(*EStr); ok {
				tn = es.Val
			}
			t := env.resolveType(tn)
			return specVal{v: leaf(u.typeID(t))}
		case "unchanged":
			v := env.evalLazy(x.Args[0])
			if v.addr == nil || v.t == nil {
				if pt, ok := derefType(v.t); ok {
					v = env.force(v)
					v = specVal{t: pt, addr: v.v.T}
				} else {
					specFail("unchanged: %s is not a location", exprString(x.Args[0]))
				}
			}
			if env.old == nil {
				return specVal{v: leaf(c.True()), t: types.Typ[types.Bool]}
			}
			var locs []leafLoc
			u.leafAddrs(v.addr, v.t, &locs)
			var parts []*Term
			for _, l := range locs {
				parts = append(parts, c.Eq(c.Select(u.heapArr(env.st, l.Sort), l.Addr), c.Select(u.heapArr(env.old.st, l.Sort), l.Addr)))
			}
			return specVal{v: leaf(c.And(parts...)), t: types.Typ[types.Bool]}
		case "fst", "snd":
			v := env.eval(x.Args[0])
			i := 0
			if id.Name == "snd" {
				i = 1
			}
			if v.v.T != nil || len(v.v.F) <= i {
				specFail("%s of a non-tuple", id.Name)
			}
			var t types.Type
			if tup, ok := v.t.(*types.Tuple); ok {
				t = tup.At(i).Type()
			}
			return specVal{v: v.v.F[i], t: t}
		case "strlen":
			return specVal{v: leaf(u.strLen(env.evalTerm(x.Args[0]))), t: types.Typ[types.Int]}
		}
		// user spec function
		if sf := u.e.specFn(env.pkgPath(), id.Name); sf != nil {
			return env.applySpecFn(sf, x.Args)
		}
		// Go function of the package
		if env.pkg != nil {
			if obj, ok := env.pkg.Scope().Lookup(id.Name).(*types.Func); ok {
				return env.applyGoFunc(obj, nil, x.Args)
			}
			if tn, ok := env.pkg.Scope().Lookup(id.Name).(*types.TypeName); ok && len(x.Args) == 1 {
				v := env.eval(x.Args[0])
				return specVal{v: v.v, t: tn.Type()}
			}
		}
		specFail("unknown function %s", id.Name)
	}
	if sel, ok := x.Fun.(*ESel); ok {
		// pkg.Func(...)
		if id, ok := sel.X.(*EIdent); ok {
			if _, isVar := env.vars[id.Name]; !isVar {
				if p := env.lookupPkg(id.Name); p != nil {
					if sf := u.e.specFn(p.Path(), sel.Name); sf != nil {
						return env.applySpecFn(sf, x.Args)
					}
					obj := p.Scope().Lookup(sel.Name)
					if f, ok := obj.(*types.Func); ok {
						return env.applyGoFunc(f, nil, x.Args)
					}
					if tn, ok := obj.(*types.TypeName); ok && len(x.Args) == 1 {
						v := env.eval(x.Args[0])
						return specVal{v: v.v, t: tn.Type()}
					}
					specFail("unknown function %s.%s", id.Name, sel.Name)
				}
			}
		}
		// method call
		recv := env.eval(sel.X)
		if recv.t == nil {
			specFail("method call on untyped value")
		}
		obj, _, _ := types.LookupFieldOrMethod(recv.t, true, env.pkg, sel.Name)
		f, ok := obj.(*types.Func)
		if !ok {
			specFail("no method %s on %s", sel.Name, recv.t)
		}
		return env.applyGoFunc(f, &recv, x.Args)
	}
	specFail("unsupported call %s", exprString(x))
	return specVal{}
}

func (env *SpecEnv) pkgPath() string {
	if env.pkg != nil {
		return env.pkg.Path()
	}
	return ""
}

func (env *SpecEnv) applySpecFn(sf *SpecFn, args []Expr) specVal {
	u := env.u
	if len(args) != len(sf.Params) {
		specFail("spec fn %s: wrong number of arguments", sf.Name)
	}
	if sf.Body == nil {
		// uninterpreted
		var sorts []*Sort
		var ts []*Term
		for i, a := range args {
			t := env.evalTerm(a)
			s, _ := env.binderSort(sf.Params[i].Type)
			if t.Sort != s {
				specFail("spec fn %s: argument %d has sort %s, want %s", sf.Name, i, t.Sort.Name, s.Name)
			}
			sorts = append(sorts, s)
			ts = append(ts, t)
		}
		rs, rt := env.binderSort(sf.Ret)
		f := u.c.Func("spec_"+sanitizeSym(sf.PkgPath)+"."+sf.Name, sorts, rs)
		return specVal{v: leaf(u.c.App(f, ts...)), t: rt}
	}
	ne := env.child()
	ne.resolve = nil
	ne.lets = nil
	for i, a := range args {
		v := env.eval(a)
		if v.t == nil {
			_, t := env.binderSort(sf.Params[i].Type)
			v.t = t
		}
		ne.vars[sf.Params[i].Name] = v
	}
	if p := u.e.typesPkg(sf.PkgPath); p != nil {
		ne.pkg = p
	}
	r := ne.eval(sf.Body)
	return r
}

// applyGoFunc applies a pure / transparent Go function inside a specification.
func (env *SpecEnv) applyGoFunc(f *types.Func, recv *specVal, args []Expr) specVal {
	u := env.u
	fn := u.e.prog.FuncValue(f)
	sig := f.Type().(*types.Signature)
	if fn == nil {
		// interface method: usable in a specification when it has a pure (assumed) contract
		if sig.Recv() != nil && types.IsInterface(sig.Recv().Type()) && recv != nil {
			name := methodKey(f)
			con := u.e.contracts[name]
			if con == nil || !con.Pure {
				specFail("interface method %s used in a specification has no pure contract", name)
			}
			svs := []*SV{recv.v}
			for i, a := range args {
				v := env.eval(a)
				if i < sig.Params().Len() && types.IsInterface(sig.Params().At(i).Type()) && v.t != nil && !types.IsInterface(v.t) && v.v.T != nil && v.v.T.Sort == SRef {
					// implicit conversion of a reference-like value (pointer, map) to the interface parameter
					v.v = leaf(u.makeIface(env.st, env.guard, v.v, v.t))
				}
				svs = append(svs, v.v)
			}
			res := u.callByContractOrDefault(nil, name, con, sig, true, f.Pkg(), svs, env.st, env.guard, token.NoPos)
			if sig.Results().Len() == 1 {
				return specVal{v: res[0], t: sig.Results().At(0).Type()}
			}
			return specVal{v: &SV{F: res}, t: sig.Results()}
		}
		specFail("no SSA function for %s", f.FullName())
	}
	var svs []*SV
	if recv != nil {
		rv := *recv
		// adjust receiver pointer-ness
		wantPtr := false
		if sig.Recv() != nil {
			_, wantPtr = sig.Recv().Type().Underlying().(*types.Pointer)
		}
		_, havePtr := derefType(rv.t)
		switch {
		case wantPtr && !havePtr:
			if rv.addr == nil {
				specFail("method %s needs an addressable receiver", f.Name())
			}
			svs = append(svs, leaf(rv.addr))
		case !wantPtr && havePtr:
			pt, _ := derefType(rv.t)
			svs = append(svs, u.load(env.st, rv.v.T, pt, env.guard))
		default:
			svs = append(svs, rv.v)
		}
	}
	for i, a := range args {
		v := env.eval(a)
		// nil literal for slice-typed parameter
		if v.isNil && i < sig.Params().Len() {
			if s := u.leafSort(sig.Params().At(i).Type()); s == SSlice {
				v.v = leaf(u.c.NilSlice())
			}
		}
		svs = append(svs, v.v)
	}
	u.specDepth++
	res := u.callFunction(nil, fn, svs, env.st, env.guard, true)
	u.specDepth--
	var rt types.Type
	if sig.Results().Len() == 1 {
		rt = sig.Results().At(0).Type()
		return specVal{v: res[0], t: rt}
	}
	return specVal{v: &SV{F: res}, t: sig.Results()}
}

func (env *SpecEnv) iterCount() specVal {
	u := env.u
	if env.fc == nil || env.li == nil {
		specFail("iter() outside a loop invariant")
	}
	// map range: the iterator whose Next is in the loop header
	for _, in := range env.li.header.Instrs {
		if nx, ok := in.(*ssa.Next); ok {
			if it := env.st.iters[nx.Iter]; it != nil {
				return specVal{v: leaf(it.pos), t: types.Typ[types.Int]}
			}
		}
	}
	for _, in := range env.li.header.Instrs {
		if phi, ok := in.(*ssa.Phi); ok && phi.Comment == "rangeindex" {
			if v, ok := env.resolve("$phi:" + phi.Name()); ok {
				return specVal{v: leaf(u.c.Add(v.v.T, u.c.Int(1))), t: types.Typ[types.Int]}
			}
		}
	}
	specFail("iter(): loop is not a range loop")
	return specVal{}
}

func (env *SpecEnv) iterIdx(k *Term) specVal {
	u := env.u
	if env.li == nil {
		specFail("iteridx() outside a loop invariant")
	}
	for _, in := range env.li.header.Instrs {
		if nx, ok := in.(*ssa.Next); ok {
			if it := env.st.iters[nx.Iter]; it != nil {
				ks := u.mapKeySort(it.mt)
				_, idx := u.mapEnumFns(ks)
				return specVal{v: leaf(u.c.App(idx, it.id, k)), t: types.Typ[types.Int]}
			}
		}
	}
	specFail("iteridx(): loop is not a map range loop")
	return specVal{}
}

func (env *SpecEnv) iterKey(j *Term) specVal {
	u := env.u
	if env.li == nil {
		specFail("iterkey() outside a loop invariant")
	}
	for _, in := range env.li.header.Instrs {
		if nx, ok := in.(*ssa.Next); ok {
			if it := env.st.iters[nx.Iter]; it != nil {
				ks := u.mapKeySort(it.mt)
				keys, _ := u.mapEnumFns(ks)
				return specVal{v: leaf(u.c.App(keys, it.id, j)), t: it.mt.Key()}
			}
		}
	}
	specFail("iterkey(): loop is not a map range loop")
	return specVal{}
}

func exprString(e Expr) string {
	switch x := e.(type) {
	case *EIdent:
		return x.Name
	case *EInt:
		return x.Val
	case *EStr:
		return fmt.Sprintf("%q", x.Val)
	case *EBool:
		return fmt.Sprint(x.Val)
	case *ENil:
		return "nil"
	case *EUnary:
		return x.Op + exprString(x.X)
	case *EBinary:
		return "(" + exprString(x.X) + " " + x.Op + " " + exprString(x.Y) + ")"
	case *ESel:
		return exprString(x.X) + "." + x.Name
	case *EIndex:
		return exprString(x.X) + "[" + exprString(x.I) + "]"
	case *ESliceE:
		return exprString(x.X) + "[..]"
	case *ECall:
		var as []string
		for _, a := range x.Args {
			as = append(as, exprString(a))
		}
		return exprString(x.Fun) + "(" + strings.Join(as, ", ") + ")"
	case *EQuant:
		q := "exists"
		if x.Forall {
			q = "forall"
		}
		var vs []string
		for _, b := range x.Vars {
			vs = append(vs, b.Name+" "+b.Type)
		}
		return q + " " + strings.Join(vs, ", ") + " :: " + exprString(x.Body)
	case *EOld:
		return "old(" + exprString(x.X) + ")"
	}
	return "?"
}
