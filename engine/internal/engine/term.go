package engine

import (
	"fmt"
	"math/big"
	"sort"
	"strconv"
	"strings"
)

// ---------------------------------------------------------------------------
// Sorts and hash-consed SMT terms with light simplification.
// ---------------------------------------------------------------------------

type Sort struct {
	Name string // SMT-LIB spelling
}

var sortTab = map[string]*Sort{}

func mkSort(name string) *Sort {
	if s, ok := sortTab[name]; ok {
		return s
	}
	s := &Sort{Name: name}
	sortTab[name] = s
	return s
}

var (
	SInt   = mkSort("Int")
	SBool  = mkSort("Bool")
	SReal  = mkSort("Real")
	SStr   = mkSort("Str")
	SRef   = mkSort("Ref")
	SPath  = mkSort("Path")
	SSlice = mkSort("Slice")
)

func ArraySort(k, v *Sort) *Sort { return mkSort("(Array " + k.Name + " " + v.Name + ")") }

func (s *Sort) IsArray() bool { return strings.HasPrefix(s.Name, "(Array ") }

// arrayParts splits "(Array K V)" respecting nested parens.
func (s *Sort) arrayParts() (k, v *Sort) {
	body := s.Name[len("(Array ") : len(s.Name)-1]
	depth := 0
	for i, c := range body {
		switch c {
		case '(':
			depth++
		case ')':
			depth--
		case ' ':
			if depth == 0 {
				return mkSort(body[:i]), mkSort(body[i+1:])
			}
		}
	}
	panic("bad array sort " + s.Name)
}

type Term struct {
	Op   string // "const" (symbol), "int", "bool", "real", or SMT operator / function name
	Name string // for const / literals
	Args []*Term
	Sort *Sort
	// quantifiers
	Bound []*Term // bound variables (Op "forall"/"exists")
	Pats  [][]*Term
	id    int
	open  bool // contains a bound variable
	isVar bool // is a bound variable
}

// TermCtx owns the hash-cons table and declarations for one verification unit.
type TermCtx struct {
	tab     map[string]*Term
	nextID  int
	consts  []*Term            // declared constants in order
	funcs   map[string]*FuncDecl // uninterpreted functions
	funcOrd []string
	fresh   map[string]int
	strLits map[string]*Term // string literal -> const
	strOrd  []string
	sorts   map[string]bool // extra uninterpreted sorts
	sortOrd []string
	// semantic hints for simplification: ids of integer terms known to be < alloc0 (roots of objects that existed
	// at entry) and ids of allocation-counter constants (all >= alloc0)
	oldRoot   map[int]bool
	allocBase map[int]bool
	// rootTag: what kind of object an integer root term identifies (pointer target of some type, or the backing
	// array of a slice with some element type); incompat decides whether two tags can denote the same object
	allocLB  map[int]*Term // alloc constant -> a term it is >= to (previous counter value)
	rootTag  map[int]interface{}
	incompat func(a, b interface{}) bool
}

// lowerBoundOver: is t >= base + k derivable from the recorded counter chain? returns (true, k).
func (c *TermCtx) lowerBoundOver(t, base *Term) (bool, *big.Int) {
	k := new(big.Int)
	for i := 0; i < 1000; i++ {
		bt, kt := splitOffset(t)
		if bt == nil {
			return false, nil
		}
		k.Add(k, kt)
		if bt == base {
			return true, k
		}
		lb, ok := c.allocLB[bt.id]
		if !ok {
			return false, nil
		}
		t = lb
	}
	return false, nil
}

// freshVsOld: is one side alloc-counter + k (k >= 0) and the other the root of an object that existed at entry?
func (c *TermCtx) freshVsOld(a, b *Term) bool {
	if c.oldRoot == nil {
		return false
	}
	chk := func(x, y *Term) bool {
		if !c.oldRoot[y.id] {
			return false
		}
		bx, kx := splitOffset(x)
		return bx != nil && c.allocBase[bx.id] && kx.Sign() >= 0
	}
	return chk(a, b) || chk(b, a)
}

type FuncDecl struct {
	Name string
	Args []*Sort
	Ret  *Sort
}

func NewTermCtx() *TermCtx {
	return &TermCtx{tab: map[string]*Term{}, funcs: map[string]*FuncDecl{}, fresh: map[string]int{}, strLits: map[string]*Term{}, sorts: map[string]bool{}}
}

func (c *TermCtx) key(op, name string, sort *Sort, args []*Term, bound []*Term) string {
	var b strings.Builder
	b.WriteString(op)
	b.WriteByte('|')
	b.WriteString(name)
	b.WriteByte('|')
	b.WriteString(sort.Name)
	for _, a := range args {
		b.WriteByte(',')
		b.WriteString(strconv.Itoa(a.id))
	}
	for _, a := range bound {
		b.WriteByte(';')
		b.WriteString(strconv.Itoa(a.id))
	}
	return b.String()
}

func (c *TermCtx) mk(op, name string, sort *Sort, args ...*Term) *Term {
	k := c.key(op, name, sort, args, nil)
	if t, ok := c.tab[k]; ok {
		return t
	}
	c.nextID++
	t := &Term{Op: op, Name: name, Args: args, Sort: sort, id: c.nextID}
	for _, a := range args {
		if a.open {
			t.open = true
		}
	}
	c.tab[k] = t
	return t
}

// DeclareSort registers an uninterpreted sort.
func (c *TermCtx) DeclareSort(name string) *Sort {
	if !c.sorts[name] {
		c.sorts[name] = true
		c.sortOrd = append(c.sortOrd, name)
	}
	return mkSort(name)
}

// Const returns (declaring if needed) the constant symbol with this exact name.
func (c *TermCtx) Const(name string, s *Sort) *Term {
	k := c.key("const", name, s, nil, nil)
	if t, ok := c.tab[k]; ok {
		return t
	}
	t := c.mk("const", name, s)
	c.consts = append(c.consts, t)
	return t
}

// Fresh returns a new constant with a unique name derived from hint.
func (c *TermCtx) Fresh(hint string, s *Sort) *Term {
	hint = sanitizeSym(hint)
	n := c.fresh[hint]
	c.fresh[hint] = n + 1
	return c.Const(fmt.Sprintf("%s!%d", hint, n), s)
}

// BoundVar creates a fresh bound variable.
func (c *TermCtx) BoundVar(hint string, s *Sort) *Term {
	hint = sanitizeSym(hint)
	n := c.fresh["bv_"+hint]
	c.fresh["bv_"+hint] = n + 1
	t := c.mk("var", fmt.Sprintf("%s?%d", hint, n), s)
	t.open = true
	t.isVar = true
	return t
}

func sanitizeSym(s string) string {
	var b strings.Builder
	for _, r := range s {
		if r >= 'a' && r <= 'z' || r >= 'A' && r <= 'Z' || r >= '0' && r <= '9' || r == '_' || r == '.' || r == '$' {
			b.WriteRune(r)
		} else {
			b.WriteByte('_')
		}
	}
	if b.Len() == 0 {
		return "x"
	}
	return b.String()
}

func (c *TermCtx) Func(name string, args []*Sort, ret *Sort) *FuncDecl {
	if f, ok := c.funcs[name]; ok {
		return f
	}
	f := &FuncDecl{Name: name, Args: args, Ret: ret}
	c.funcs[name] = f
	c.funcOrd = append(c.funcOrd, name)
	return f
}

func (c *TermCtx) App(f *FuncDecl, args ...*Term) *Term {
	if len(args) != len(f.Args) {
		panic(fmt.Sprintf("arity mismatch for %s: %d vs %d", f.Name, len(args), len(f.Args)))
	}
	for i, a := range args {
		if a.Sort != f.Args[i] {
			panic(fmt.Sprintf("sort mismatch for %s arg %d: %s vs %s", f.Name, i, a.Sort.Name, f.Args[i].Name))
		}
	}
	if len(args) == 0 {
		return c.Const(f.Name, f.Ret)
	}
	return c.mk("app", f.Name, f.Ret, args...)
}

// ---- literals ----

func (c *TermCtx) Int(v int64) *Term        { return c.mk("int", strconv.FormatInt(v, 10), SInt) }
func (c *TermCtx) BigInt(v *big.Int) *Term  { return c.mk("int", v.String(), SInt) }
func (c *TermCtx) IntStr(v string) *Term    { return c.mk("int", v, SInt) }
func (c *TermCtx) Bool(v bool) *Term {
	if v {
		return c.mk("bool", "true", SBool)
	}
	return c.mk("bool", "false", SBool)
}
func (c *TermCtx) True() *Term  { return c.Bool(true) }
func (c *TermCtx) False() *Term { return c.Bool(false) }

func (c *TermCtx) Real(v string) *Term { return c.mk("real", v, SReal) }

// Str returns the interned constant for a string literal.
func (c *TermCtx) Str(v string) *Term {
	if t, ok := c.strLits[v]; ok {
		return t
	}
	t := c.mk("strlit", v, SStr)
	c.strLits[v] = t
	c.strOrd = append(c.strOrd, v)
	return t
}

func (t *Term) IsTrue() bool  { return t.Op == "bool" && t.Name == "true" }
func (t *Term) IsFalse() bool { return t.Op == "bool" && t.Name == "false" }
func (t *Term) IntVal() (*big.Int, bool) {
	if t.Op != "int" {
		return nil, false
	}
	v, ok := new(big.Int).SetString(t.Name, 10)
	return v, ok
}

// ---- boolean ----

func (c *TermCtx) Not(a *Term) *Term {
	if a.Sort != SBool {
		panic("Not on " + a.Sort.Name)
	}
	if a.IsTrue() {
		return c.False()
	}
	if a.IsFalse() {
		return c.True()
	}
	if a.Op == "not" {
		return a.Args[0]
	}
	return c.mk("not", "", SBool, a)
}

func (c *TermCtx) And(as ...*Term) *Term {
	var out []*Term
	seen := map[int]bool{}
	for _, a := range as {
		if a == nil {
			continue
		}
		if a.Sort != SBool {
			panic("And on " + a.Sort.Name)
		}
		if a.IsTrue() {
			continue
		}
		if a.IsFalse() {
			return a
		}
		parts := []*Term{a}
		if a.Op == "and" {
			parts = a.Args
		}
		for _, p := range parts {
			if !seen[p.id] {
				seen[p.id] = true
				out = append(out, p)
			}
		}
	}
	for _, p := range out {
		if p.Op == "not" && seen[p.Args[0].id] {
			return c.False()
		}
	}
	switch len(out) {
	case 0:
		return c.True()
	case 1:
		return out[0]
	}
	return c.mk("and", "", SBool, out...)
}

func (c *TermCtx) Or(as ...*Term) *Term {
	var out []*Term
	seen := map[int]bool{}
	for _, a := range as {
		if a == nil {
			continue
		}
		if a.Sort != SBool {
			panic("Or on " + a.Sort.Name)
		}
		if a.IsFalse() {
			continue
		}
		if a.IsTrue() {
			return a
		}
		parts := []*Term{a}
		if a.Op == "or" {
			parts = a.Args
		}
		for _, p := range parts {
			if !seen[p.id] {
				seen[p.id] = true
				out = append(out, p)
			}
		}
	}
	for _, p := range out {
		if p.Op == "not" && seen[p.Args[0].id] {
			return c.True()
		}
	}
	// factor  (p & c) | (p & !c)  ->  p   (common at CFG joins)
	if len(out) == 2 {
		if r := c.factorOr(out[0], out[1]); r != nil {
			return r
		}
	}
	switch len(out) {
	case 0:
		return c.False()
	case 1:
		return out[0]
	}
	return c.mk("or", "", SBool, out...)
}

func conj(t *Term) []*Term {
	if t.Op == "and" {
		return t.Args
	}
	return []*Term{t}
}

func (c *TermCtx) factorOr(a, b *Term) *Term {
	ca, cb := conj(a), conj(b)
	inB := map[int]bool{}
	for _, x := range cb {
		inB[x.id] = true
	}
	var common, ra, rb []*Term
	inCommon := map[int]bool{}
	for _, x := range ca {
		if inB[x.id] {
			common = append(common, x)
			inCommon[x.id] = true
		} else {
			ra = append(ra, x)
		}
	}
	if len(common) == 0 {
		return nil
	}
	for _, x := range cb {
		if !inCommon[x.id] {
			rb = append(rb, x)
		}
	}
	if len(ra) == 0 || len(rb) == 0 {
		// a implies b or vice versa: a|b = the weaker = common
		return c.And(common...)
	}
	rest := c.Or(c.And(ra...), c.And(rb...))
	return c.And(append(common, rest)...)
}

func (c *TermCtx) Implies(a, b *Term) *Term {
	if a.IsTrue() {
		return b
	}
	if a.IsFalse() || b.IsTrue() {
		return c.True()
	}
	if b.IsFalse() {
		return c.Not(a)
	}
	return c.mk("=>", "", SBool, a, b)
}

func (c *TermCtx) Iff(a, b *Term) *Term { return c.Eq(a, b) }

func (c *TermCtx) Ite(g, a, b *Term) *Term {
	if a.Sort != b.Sort {
		panic(fmt.Sprintf("Ite sorts %s vs %s", a.Sort.Name, b.Sort.Name))
	}
	if g.IsTrue() {
		return a
	}
	if g.IsFalse() {
		return b
	}
	if a == b {
		return a
	}
	if a.Sort == SBool {
		if a.IsTrue() && b.IsFalse() {
			return g
		}
		if a.IsFalse() && b.IsTrue() {
			return c.Not(g)
		}
		if a.IsTrue() {
			return c.Or(g, b)
		}
		if b.IsFalse() {
			return c.And(g, a)
		}
		if a.IsFalse() {
			return c.And(c.Not(g), b)
		}
		if b.IsTrue() {
			return c.Or(c.Not(g), a)
		}
	}
	return c.mk("ite", "", a.Sort, g, a, b)
}

func (c *TermCtx) Eq(a, b *Term) *Term {
	if a.Sort != b.Sort {
		panic(fmt.Sprintf("Eq sorts %s vs %s (%s, %s)", a.Sort.Name, b.Sort.Name, a, b))
	}
	if a == b {
		return c.True()
	}
	if a.Op == "int" && b.Op == "int" {
		return c.Bool(a.Name == b.Name)
	}
	if a.Op == "bool" && b.Op == "bool" {
		return c.Bool(a.Name == b.Name)
	}
	if a.Sort == SInt {
		ba, ka := splitOffset(a)
		bb, kb := splitOffset(b)
		if ba == bb && ba != nil {
			return c.Bool(ka.Cmp(kb) == 0)
		}
		if c.freshVsOld(a, b) {
			return c.False()
		}
		if c.rootTag != nil && c.incompat != nil {
			if ta, ok := c.rootTag[a.id]; ok {
				if tb, ok := c.rootTag[b.id]; ok && c.incompat(ta, tb) {
					return c.False()
				}
			}
		}
	}
	if a.Op == "strlit" && b.Op == "strlit" {
		return c.Bool(a.Name == b.Name)
	}
	if a.Sort == SBool {
		if a.IsTrue() {
			return b
		}
		if b.IsTrue() {
			return a
		}
		if a.IsFalse() {
			return c.Not(b)
		}
		if b.IsFalse() {
			return c.Not(a)
		}
	}
	// constructor decomposition for Ref / Path / Slice
	if a.Op == "ctor" && b.Op == "ctor" {
		if a.Name != b.Name {
			return c.False()
		}
		var parts []*Term
		for i := range a.Args {
			parts = append(parts, c.Eq(a.Args[i], b.Args[i]))
		}
		return c.And(parts...)
	}
	if a.id > b.id {
		a, b = b, a
	}
	return c.mk("=", "", SBool, a, b)
}

func (c *TermCtx) Neq(a, b *Term) *Term { return c.Not(c.Eq(a, b)) }

// ---- arithmetic ----

func (c *TermCtx) arith(op string, a, b *Term) *Term {
	if a.Sort != b.Sort || (a.Sort != SInt && a.Sort != SReal) {
		panic(fmt.Sprintf("arith %s on %s,%s", op, a.Sort.Name, b.Sort.Name))
	}
	if a.Sort == SInt {
		av, aok := a.IntVal()
		bv, bok := b.IntVal()
		if aok && bok {
			r := new(big.Int)
			switch op {
			case "+":
				return c.BigInt(r.Add(av, bv))
			case "-":
				return c.BigInt(r.Sub(av, bv))
			case "*":
				return c.BigInt(r.Mul(av, bv))
			}
		}
		zero := func(v *big.Int, ok bool) bool { return ok && v.Sign() == 0 }
		one := func(v *big.Int, ok bool) bool { return ok && v.Cmp(big.NewInt(1)) == 0 }
		switch op {
		case "+":
			if zero(av, aok) {
				return b
			}
			if zero(bv, bok) {
				return a
			}
		case "-":
			if zero(bv, bok) {
				return a
			}
			if a == b {
				return c.Int(0)
			}
		case "*":
			if zero(av, aok) || zero(bv, bok) {
				return c.Int(0)
			}
			if one(av, aok) {
				return b
			}
			if one(bv, bok) {
				return a
			}
		}
	}
	return c.mk(op, "", a.Sort, a, b)
}

func (c *TermCtx) Add(a, b *Term) *Term { return c.arith("+", a, b) }
func (c *TermCtx) Sub(a, b *Term) *Term { return c.arith("-", a, b) }
func (c *TermCtx) Mul(a, b *Term) *Term { return c.arith("*", a, b) }
func (c *TermCtx) Neg(a *Term) *Term    { return c.Sub(c.zeroOf(a.Sort), a) }
func (c *TermCtx) zeroOf(s *Sort) *Term {
	if s == SReal {
		return c.Real("0.0")
	}
	return c.Int(0)
}

// GoDiv is Go's truncated division on mathematical integers (b != 0 is an obligation elsewhere).
func (c *TermCtx) GoDiv(a, b *Term) *Term {
	av, aok := a.IntVal()
	bv, bok := b.IntVal()
	if aok && bok && bv.Sign() != 0 {
		return c.BigInt(new(big.Int).Quo(av, bv))
	}
	// SMT div is floor for positive divisor, ceil for negative: (div a b) with a = b*q + r, 0<=r<|b|
	// truncated: if a >= 0 then (div a b) else -(div (-a) b)
	d1 := c.mk("div", "", SInt, a, b)
	d2 := c.Neg(c.mk("div", "", SInt, c.Neg(a), b))
	return c.Ite(c.Ge(a, c.Int(0)), d1, d2)
}

func (c *TermCtx) GoRem(a, b *Term) *Term {
	return c.Sub(a, c.Mul(b, c.GoDiv(a, b)))
}

// EDiv is SMT-LIB euclidean div.
func (c *TermCtx) EDiv(a, b *Term) *Term { return c.mk("div", "", SInt, a, b) }
func (c *TermCtx) EMod(a, b *Term) *Term { return c.mk("mod", "", SInt, a, b) }

func (c *TermCtx) cmp(op string, a, b *Term) *Term {
	if a.Sort != b.Sort || (a.Sort != SInt && a.Sort != SReal) {
		panic(fmt.Sprintf("cmp %s on %s,%s", op, a.Sort.Name, b.Sort.Name))
	}
	av, aok := a.IntVal()
	bv, bok := b.IntVal()
	if aok && bok {
		r := av.Cmp(bv)
		switch op {
		case "<":
			return c.Bool(r < 0)
		case "<=":
			return c.Bool(r <= 0)
		}
	}
	if a == b {
		return c.Bool(op == "<=")
	}
	// (base + k1) vs (base + k2)
	if a.Sort == SInt {
		ba, ka := splitOffset(a)
		bb, kb := splitOffset(b)
		if ba == bb && ba != nil {
			r := ka.Cmp(kb)
			if op == "<" {
				return c.Bool(r < 0)
			}
			return c.Bool(r <= 0)
		}
		if c.allocLB != nil {
			// both sides alloc-based: compare through the chain of lower bounds  b >= ... >= base_a + k
			ba, ka := splitOffset(a)
			if ba != nil && c.allocBase[ba.id] {
				lbBase, lbK := c.lowerBoundOver(b, ba)
				if lbBase {
					// b >= ba + lbK ; a = ba + ka
					r := ka.Cmp(lbK)
					if op == "<" && r < 0 {
						return c.True()
					}
					if op == "<=" && r <= 0 {
						return c.True()
					}
				}
			}
		}
		if c.oldRoot != nil {
			// old root < alloc-counter + k
			if c.oldRoot[a.id] {
				if bx, kx := splitOffset(b); bx != nil && c.allocBase[bx.id] && kx.Sign() >= 0 {
					return c.True()
				}
			}
			if c.oldRoot[b.id] {
				if bx, kx := splitOffset(a); bx != nil && c.allocBase[bx.id] && kx.Sign() >= 0 {
					return c.False()
				}
			}
		}
	}
	return c.mk(op, "", SBool, a, b)
}

// splitOffset writes t as base + k (base nil for literals).
func splitOffset(t *Term) (*Term, *big.Int) {
	k := new(big.Int)
	for {
		if v, ok := t.IntVal(); ok {
			return nil, k.Add(k, v)
		}
		if t.Op == "+" {
			if v, ok := t.Args[1].IntVal(); ok {
				k.Add(k, v)
				t = t.Args[0]
				continue
			}
			if v, ok := t.Args[0].IntVal(); ok {
				k.Add(k, v)
				t = t.Args[1]
				continue
			}
		}
		if t.Op == "-" {
			if v, ok := t.Args[1].IntVal(); ok {
				k.Sub(k, v)
				t = t.Args[0]
				continue
			}
		}
		return t, k
	}
}
func (c *TermCtx) Lt(a, b *Term) *Term { return c.cmp("<", a, b) }
func (c *TermCtx) Le(a, b *Term) *Term { return c.cmp("<=", a, b) }
func (c *TermCtx) Gt(a, b *Term) *Term { return c.cmp("<", b, a) }
func (c *TermCtx) Ge(a, b *Term) *Term { return c.cmp("<=", b, a) }

func (c *TermCtx) ToReal(a *Term) *Term {
	if a.Op == "int" {
		return c.Real(a.Name + ".0")
	}
	return c.mk("to_real", "", SReal, a)
}

// ---- arrays ----

func (c *TermCtx) Select(arr, idx *Term) *Term {
	k, v := arr.Sort.arrayParts()
	if idx.Sort != k {
		panic(fmt.Sprintf("select index sort %s vs %s", idx.Sort.Name, k.Name))
	}
	// read-over-write with syntactic (dis)equality
	cur := arr
	for cur.Op == "store" {
		e := c.Eq(cur.Args[1], idx)
		if e.IsTrue() {
			return cur.Args[2]
		}
		if e.IsFalse() {
			cur = cur.Args[0]
			continue
		}
		break
	}
	if cur.Op == "constarr" {
		return cur.Args[0]
	}
	if cur.Op == "ite" && !idx.open {
		// read through a merged heap: lets frame instances and read-over-write apply on each side
		return c.Ite(cur.Args[0], c.Select(cur.Args[1], idx), c.Select(cur.Args[2], idx))
	}
	return c.mk("select", "", v, cur, idx)
}

func (c *TermCtx) Store(arr, idx, val *Term) *Term {
	k, v := arr.Sort.arrayParts()
	if idx.Sort != k || val.Sort != v {
		panic(fmt.Sprintf("store sorts: arr %s idx %s val %s", arr.Sort.Name, idx.Sort.Name, val.Sort.Name))
	}
	if arr.Op == "store" && arr.Args[1] == idx {
		arr = arr.Args[0]
	}
	return c.mk("store", "", arr.Sort, arr, idx, val)
}

// ConstArray is ((as const (Array K V)) v).
func (c *TermCtx) ConstArray(s *Sort, v *Term) *Term { return c.mk("constarr", "", s, v) }

// ---- datatypes: Ref = mkref(root Int, path Path); Path = pnil | pf(Path,Int) | pe(Path,Int);
//      Slice = mkslice(arr Ref, off Int, len Int, cap Int)

func (c *TermCtx) ctor(name string, s *Sort, args ...*Term) *Term { return c.mk("ctor", name, s, args...) }

func (c *TermCtx) sel(name string, s *Sort, ctorName string, idx int, a *Term) *Term {
	if a.Op == "ctor" && a.Name == ctorName {
		return a.Args[idx]
	}
	if a.Op == "ite" {
		// push selectors through ite when both branches are constructors
		if a.Args[1].Op == "ctor" || a.Args[2].Op == "ctor" {
			return c.Ite(a.Args[0], c.sel(name, s, ctorName, idx, a.Args[1]), c.sel(name, s, ctorName, idx, a.Args[2]))
		}
	}
	return c.mk("sel", name, s, a)
}

func (c *TermCtx) PNil() *Term                { return c.ctor("pnil", SPath) }
func (c *TermCtx) MkRef(root, path *Term) *Term {
	// mkref(rroot(x), rpath(x)) -> x
	if root.Op == "sel" && root.Name == "rroot" && path.Op == "sel" && path.Name == "rpath" && root.Args[0] == path.Args[0] {
		return root.Args[0]
	}
	return c.ctor("mkref", SRef, root, path)
}
func (c *TermCtx) Nil() *Term            { return c.MkRef(c.Int(0), c.PNil()) }
func (c *TermCtx) Root(r *Term) *Term    { return c.sel("rroot", SInt, "mkref", 0, r) }
func (c *TermCtx) PathOf(r *Term) *Term  { return c.sel("rpath", SPath, "mkref", 1, r) }
func (c *TermCtx) Obj(id *Term) *Term    { return c.MkRef(id, c.PNil()) }
func (c *TermCtx) Fld(r *Term, fid int) *Term {
	return c.MkRef(c.Root(r), c.ctor("pf", SPath, c.PathOf(r), c.Int(int64(fid))))
}
func (c *TermCtx) Elm(r *Term, idx *Term) *Term {
	return c.MkRef(c.Root(r), c.ctor("pe", SPath, c.PathOf(r), idx))
}

func (c *TermCtx) MkSlice(arr, off, ln, cp *Term) *Term { return c.ctor("mkslice", SSlice, arr, off, ln, cp) }
func (c *TermCtx) NilSlice() *Term                      { return c.MkSlice(c.Nil(), c.Int(0), c.Int(0), c.Int(0)) }
func (c *TermCtx) SArr(s *Term) *Term                   { return c.sel("sarr", SRef, "mkslice", 0, s) }
func (c *TermCtx) SOff(s *Term) *Term                   { return c.sel("soff", SInt, "mkslice", 1, s) }
func (c *TermCtx) SLen(s *Term) *Term                   { return c.sel("slen", SInt, "mkslice", 2, s) }
func (c *TermCtx) SCap(s *Term) *Term                   { return c.sel("scap", SInt, "mkslice", 3, s) }
func (c *TermCtx) SElem(s, i *Term) *Term               { return c.Elm(c.SArr(s), c.Add(c.SOff(s), i)) }

// ---- quantifiers ----

func (c *TermCtx) Quant(op string, bound []*Term, body *Term, pats [][]*Term) *Term {
	if len(bound) == 0 {
		return body
	}
	if body.IsTrue() || body.IsFalse() {
		return body
	}
	k := c.key(op, "", SBool, []*Term{body}, bound)
	if t, ok := c.tab[k]; ok {
		return t
	}
	c.nextID++
	t := &Term{Op: op, Args: []*Term{body}, Sort: SBool, Bound: bound, Pats: pats, id: c.nextID}
	// open if body has free vars other than bound ones
	t.open = hasFreeVarExcept(body, bound)
	c.tab[k] = t
	return t
}

func hasFreeVarExcept(t *Term, bound []*Term) bool {
	if !t.open {
		return false
	}
	bs := map[int]bool{}
	for _, b := range bound {
		bs[b.id] = true
	}
	seen := map[int]bool{}
	var walk func(t *Term, bs map[int]bool) bool
	walk = func(t *Term, bs map[int]bool) bool {
		if !t.open {
			return false
		}
		if t.isVar {
			return !bs[t.id]
		}
		if seen[t.id] && len(t.Bound) == 0 {
			return false
		}
		seen[t.id] = true
		if len(t.Bound) > 0 {
			nb := map[int]bool{}
			for k := range bs {
				nb[k] = true
			}
			for _, b := range t.Bound {
				nb[b.id] = true
			}
			return walk(t.Args[0], nb)
		}
		for _, a := range t.Args {
			if walk(a, bs) {
				return true
			}
		}
		return false
	}
	return walk(t, bs)
}

func (c *TermCtx) Forall(bound []*Term, body *Term, pats ...[]*Term) *Term {
	if len(pats) == 0 {
		pats = autoPatterns(bound, body)
	}
	return c.Quant("forall", bound, body, pats)
}

// autoPatterns picks triggers: array reads and uninterpreted applications that mention every bound variable and
// contain no boolean structure. Datatype selectors alone (rroot/rpath) are never triggers -- they match every Ref.
func autoPatterns(bound []*Term, body *Term) [][]*Term {
	bid := map[int]bool{}
	for _, b := range bound {
		bid[b.id] = true
	}
	type info struct {
		vars map[int]bool
		ok   bool // usable inside a pattern
		size int
	}
	memo := map[int]*info{}
	var cands []*Term
	var walk func(t *Term) *info
	walk = func(t *Term) *info {
		if in, ok := memo[t.id]; ok {
			return in
		}
		in := &info{vars: map[int]bool{}, ok: true, size: 1}
		memo[t.id] = in
		if t.isVar {
			if bid[t.id] {
				in.vars[t.id] = true
			}
			return in
		}
		if len(t.Bound) > 0 {
			in.ok = false
			sub := walk(t.Args[0])
			for v := range sub.vars {
				in.vars[v] = true
			}
			return in
		}
		switch t.Op {
		case "ite", "and", "or", "not", "=>", "=", "<", "<=", "div", "mod", "*":
			in.ok = false
		}
		for _, a := range t.Args {
			sub := walk(a)
			in.size += sub.size
			if !sub.ok {
				in.ok = false
			}
			for v := range sub.vars {
				in.vars[v] = true
			}
		}
		if in.ok && len(in.vars) == len(bound) && (t.Op == "select" || t.Op == "app") {
			cands = append(cands, t)
		}
		return in
	}
	walk(body)
	if len(cands) == 0 {
		return nil
	}
	// keep minimal candidates (not containing another candidate), at most 4, smallest first
	isCand := map[int]bool{}
	for _, t := range cands {
		isCand[t.id] = true
	}
	var contains func(t *Term, top bool) bool
	contains = func(t *Term, top bool) bool {
		if !top && isCand[t.id] {
			return true
		}
		for _, a := range t.Args {
			if contains(a, false) {
				return true
			}
		}
		return false
	}
	var minimal []*Term
	for _, t := range cands {
		if !contains(t, true) {
			minimal = append(minimal, t)
		}
	}
	if len(minimal) == 0 {
		minimal = cands
	}
	// stable order by size
	for i := 0; i < len(minimal); i++ {
		for j := i + 1; j < len(minimal); j++ {
			if memo[minimal[j].id].size < memo[minimal[i].id].size {
				minimal[i], minimal[j] = minimal[j], minimal[i]
			}
		}
	}
	if len(minimal) > 4 {
		minimal = minimal[:4]
	}
	var out [][]*Term
	for _, t := range minimal {
		out = append(out, []*Term{t})
	}
	return out
}
func (c *TermCtx) Exists(bound []*Term, body *Term) *Term { return c.Quant("exists", bound, body, nil) }

// Subst replaces terms according to m (by identity), rebuilding through constructors (with simplification).
func (c *TermCtx) Subst(t *Term, m map[*Term]*Term) *Term {
	memo := map[*Term]*Term{}
	var rec func(t *Term) *Term
	rec = func(t *Term) *Term {
		if r, ok := m[t]; ok {
			return r
		}
		if len(t.Args) == 0 {
			return t
		}
		if r, ok := memo[t]; ok {
			return r
		}
		args := make([]*Term, len(t.Args))
		changed := false
		for i, a := range t.Args {
			args[i] = rec(a)
			if args[i] != a {
				changed = true
			}
		}
		var r *Term
		if !changed {
			r = t
		} else {
			r = c.rebuild(t, args)
		}
		memo[t] = r
		return r
	}
	return rec(t)
}

func (c *TermCtx) rebuild(t *Term, args []*Term) *Term {
	switch t.Op {
	case "not":
		return c.Not(args[0])
	case "and":
		return c.And(args...)
	case "or":
		return c.Or(args...)
	case "=>":
		return c.Implies(args[0], args[1])
	case "ite":
		return c.Ite(args[0], args[1], args[2])
	case "=":
		return c.Eq(args[0], args[1])
	case "+":
		return c.Add(args[0], args[1])
	case "-":
		return c.Sub(args[0], args[1])
	case "*":
		return c.Mul(args[0], args[1])
	case "<":
		return c.Lt(args[0], args[1])
	case "<=":
		return c.Le(args[0], args[1])
	case "select":
		return c.Select(args[0], args[1])
	case "store":
		return c.Store(args[0], args[1], args[2])
	case "sel":
		switch t.Name {
		case "rroot":
			return c.Root(args[0])
		case "rpath":
			return c.PathOf(args[0])
		case "sarr":
			return c.SArr(args[0])
		case "soff":
			return c.SOff(args[0])
		case "slen":
			return c.SLen(args[0])
		case "scap":
			return c.SCap(args[0])
		}
		return c.mk(t.Op, t.Name, t.Sort, args...)
	case "ctor":
		if t.Name == "mkref" {
			return c.MkRef(args[0], args[1])
		}
		return c.mk(t.Op, t.Name, t.Sort, args...)
	case "forall", "exists":
		var pats [][]*Term
		return c.Quant(t.Op, t.Bound, args[0], pats)
	}
	return c.mk(t.Op, t.Name, t.Sort, args...)
}

// ---------------------------------------------------------------------------
// Printing
// ---------------------------------------------------------------------------

func smtInt(s string) string {
	if strings.HasPrefix(s, "-") {
		return "(- " + s[1:] + ")"
	}
	return s
}

func symQuote(s string) string {
	for _, r := range s {
		if !(r >= 'a' && r <= 'z' || r >= 'A' && r <= 'Z' || r >= '0' && r <= '9' || r == '_' || r == '.' || r == '!' || r == '$' || r == '?') {
			return "|" + s + "|"
		}
	}
	return s
}

func (t *Term) head() string {
	switch t.Op {
	case "const", "var":
		return symQuote(t.Name)
	case "int":
		return smtInt(t.Name)
	case "bool":
		return t.Name
	case "real":
		if strings.HasPrefix(t.Name, "-") {
			return "(- " + t.Name[1:] + ")"
		}
		return t.Name
	case "strlit":
		return "" // handled by printer (needs ctx index)
	case "app", "ctor", "sel":
		return symQuote(t.Name)
	case "constarr":
		return "(as const " + t.Sort.Name + ")"
	}
	return t.Op
}

// String renders without sharing (debug only).
func (t *Term) String() string {
	if t.Op == "strlit" {
		return strconv.Quote(t.Name)
	}
	if len(t.Bound) > 0 {
		var bs []string
		for _, b := range t.Bound {
			bs = append(bs, "("+symQuote(b.Name)+" "+b.Sort.Name+")")
		}
		return "(" + t.Op + " (" + strings.Join(bs, " ") + ") " + t.Args[0].String() + ")"
	}
	if len(t.Args) == 0 {
		return t.head()
	}
	parts := []string{t.head()}
	for _, a := range t.Args {
		parts = append(parts, a.String())
	}
	return "(" + strings.Join(parts, " ") + ")"
}

// Printer emits a script with shared closed subterms named via define-fun.
type Printer struct {
	c      *TermCtx
	names  map[int]string
	refcnt map[int]int
	out    *strings.Builder
	n      int
}

func (c *TermCtx) strLitName(v string) string {
	for i, s := range c.strOrd {
		if s == v {
			return fmt.Sprintf("str!%d", i)
		}
	}
	panic("unknown string literal")
}

func (p *Printer) count(t *Term) {
	p.refcnt[t.id]++
	if p.refcnt[t.id] > 1 {
		return
	}
	for _, a := range t.Args {
		p.count(a)
	}
	for _, ps := range t.Pats {
		for _, a := range ps {
			p.count(a)
		}
	}
}

func (p *Printer) expr(t *Term) string {
	if n, ok := p.names[t.id]; ok {
		return n
	}
	if t.Op == "strlit" {
		return p.c.strLitName(t.Name)
	}
	if len(t.Bound) > 0 {
		var bs []string
		for _, b := range t.Bound {
			bs = append(bs, "("+symQuote(b.Name)+" "+b.Sort.Name+")")
		}
		body := p.expr(t.Args[0])
		if len(t.Pats) > 0 && patsOK(t.Pats) {
			var pats []string
			for _, ps := range t.Pats {
				var xs []string
				for _, a := range ps {
					xs = append(xs, p.expr(a))
				}
				pats = append(pats, ":pattern ("+strings.Join(xs, " ")+")")
			}
			body = "(! " + body + " " + strings.Join(pats, " ") + ")"
		}
		return "(" + t.Op + " (" + strings.Join(bs, " ") + ") " + body + ")"
	}
	if len(t.Args) == 0 {
		return t.head()
	}
	var b strings.Builder
	b.WriteByte('(')
	b.WriteString(t.head())
	for _, a := range t.Args {
		b.WriteByte(' ')
		b.WriteString(p.expr(a))
	}
	b.WriteByte(')')
	return b.String()
}

// hoist defines names for closed, shared, non-trivial subterms (post-order).
func (p *Printer) hoist(t *Term, done map[int]bool) {
	if done[t.id] {
		return
	}
	done[t.id] = true
	for _, a := range t.Args {
		p.hoist(a, done)
	}
	for _, ps := range t.Pats {
		for _, a := range ps {
			p.hoist(a, done)
		}
	}
	if t.open || len(t.Args) == 0 || p.refcnt[t.id] < 2 {
		return
	}
	s := p.expr(t)
	if len(s) < 24 {
		return
	}
	p.n++
	name := fmt.Sprintf("t!%d", p.n)
	fmt.Fprintf(p.out, "(define-fun %s () %s %s)\n", name, t.Sort.Name, s)
	p.names[t.id] = name
}

const smtPrelude = `(declare-datatypes ((Path 0)) (((pnil) (pf (pfp Path) (pfi Int)) (pe (pep Path) (pei Int)))))
(declare-datatypes ((Ref 0)) (((mkref (rroot Int) (rpath Path)))))
(declare-datatypes ((Slice 0)) (((mkslice (sarr Ref) (soff Int) (slen Int) (scap Int)))))
`

// Script renders declarations + the given assertions (conjunction must be unsat to prove).
func (c *TermCtx) Script(asserts []*Term, getModel bool, extra string) string {
	p := &Printer{c: c, names: map[int]string{}, refcnt: map[int]int{}, out: &strings.Builder{}}
	for _, a := range asserts {
		p.count(a)
	}
	// which symbols are used
	used := map[int]bool{}
	usedFn := map[string]bool{}
	usedStr := map[string]bool{}
	var mark func(t *Term)
	mark = func(t *Term) {
		if used[t.id] {
			return
		}
		used[t.id] = true
		if t.Op == "app" {
			usedFn[t.Name] = true
		}
		if t.Op == "strlit" {
			usedStr[t.Name] = true
		}
		for _, a := range t.Args {
			mark(a)
		}
		for _, ps := range t.Pats {
			for _, a := range ps {
				mark(a)
			}
		}
	}
	for _, a := range asserts {
		mark(a)
	}
	var hdr strings.Builder
	hdr.WriteString("(set-option :produce-models true)\n(set-logic ALL)\n")
	hdr.WriteString("(declare-sort Str 0)\n")
	for _, s := range c.sortOrd {
		fmt.Fprintf(&hdr, "(declare-sort %s 0)\n", s)
	}
	hdr.WriteString(smtPrelude)
	hdr.WriteString(extra)
	for _, k := range c.consts {
		if used[k.id] {
			fmt.Fprintf(&hdr, "(declare-fun %s () %s)\n", symQuote(k.Name), k.Sort.Name)
		}
	}
	var lits []string
	for i, s := range c.strOrd {
		if usedStr[s] {
			n := fmt.Sprintf("str!%d", i)
			fmt.Fprintf(&hdr, "(declare-fun %s () Str) ; %s\n", n, strconv.Quote(s))
			lits = append(lits, n)
		}
	}
	if len(lits) > 1 {
		fmt.Fprintf(&hdr, "(assert (distinct %s))\n", strings.Join(lits, " "))
	}
	names := append([]string{}, c.funcOrd...)
	sort.Strings(names)
	for _, n := range names {
		if !usedFn[n] {
			continue
		}
		f := c.funcs[n]
		var as []string
		for _, a := range f.Args {
			as = append(as, a.Name)
		}
		fmt.Fprintf(&hdr, "(declare-fun %s (%s) %s)\n", symQuote(f.Name), strings.Join(as, " "), f.Ret.Name)
	}
	done := map[int]bool{}
	for _, a := range asserts {
		p.hoist(a, done)
	}
	for _, a := range asserts {
		fmt.Fprintf(p.out, "(assert %s)\n", p.expr(a))
	}
	p.out.WriteString("(check-sat)\n")
	if getModel {
		p.out.WriteString("(get-model)\n")
	}
	return hdr.String() + p.out.String()
}

// patsOK: patterns may not contain boolean connectives or ite.
func patsOK(pats [][]*Term) bool {
	var bad func(t *Term) bool
	seen := map[int]bool{}
	bad = func(t *Term) bool {
		if seen[t.id] {
			return false
		}
		seen[t.id] = true
		switch t.Op {
		case "ite", "and", "or", "not", "=>", "=", "<", "<=", "forall", "exists":
			return true
		}
		for _, a := range t.Args {
			if bad(a) {
				return true
			}
		}
		return false
	}
	for _, ps := range pats {
		for _, a := range ps {
			if bad(a) {
				return false
			}
		}
	}
	return true
}
