package engine

import (
	"bytes"
	"context"
	"encoding/json"
	"fmt"
	"go/types"
	"os"
	"os/exec"
	"path/filepath"
	"regexp"
	"sort"
	"strconv"
	"strings"
	"time"
)

// ---------------------------------------------------------------------------
// Replay of a solver model against the real code.
//
// Inputs: the parameters of the function and every entry-heap location the VC reads, with the values the model
// gives them, are built as real Go objects by an in-package test injected with `go test -overlay`.
// Outputs: the results (and post-state locations the violated clause reads) as predicted by the model are compared
// with what the real function produces. If they agree, the clause -- false in the model -- is false on the real run.
// For safety obligations (nil / index / divzero / assert) the real call must panic.
// ---------------------------------------------------------------------------

type replaySpec struct {
	Property   string            `json:"property"`
	Obligation string            `json:"obligation"`
	Kind       string            `json:"kind"`
	Clause     string            `json:"clause"`
	Function   string            `json:"function"`
	PkgDir     string            `json:"pkg_dir"`
	ModDir     string            `json:"mod_dir"`
	TestFile   string            `json:"test_file"`
	Expect     map[string]string `json:"expected_outputs"`
	ExpectPanic bool             `json:"expect_panic"`
	Inputs     []string          `json:"inputs"`
	Tries      int               `json:"tries"`
}

var refRe = regexp.MustCompile(`^\(mkref (\(- \d+\)|\d+) (.*)\)$`)

func parseRef(v string) (root string, rooted bool, ok bool) {
	m := refRe.FindStringSubmatch(v)
	if m == nil {
		return "", false, false
	}
	return m[1], m[2] == "pnil", true
}

func parseSlice(v string) (arrRoot string, off, ln, cp int64, ok bool) {
	// (mkslice (mkref R P) off len cap)
	if !strings.HasPrefix(v, "(mkslice ") {
		return
	}
	inner := v[len("(mkslice ") : len(v)-1]
	// find end of the ref sexpr
	depth := 0
	end := -1
	for i, ch := range inner {
		if ch == '(' {
			depth++
		} else if ch == ')' {
			depth--
			if depth == 0 {
				end = i
				break
			}
		}
	}
	if end < 0 {
		return
	}
	r, _, rok := parseRef(inner[:end+1])
	nums := smtInts(inner[end+1:])
	if !rok || len(nums) != 3 {
		return
	}
	return r, nums[0], nums[1], nums[2], true
}

func smtInts(s string) []int64 {
	var out []int64
	s = strings.ReplaceAll(s, "(- ", "-")
	s = strings.ReplaceAll(s, ")", " ")
	for _, f := range strings.Fields(s) {
		if n, err := strconv.ParseInt(f, 10, 64); err == nil {
			out = append(out, n)
		}
	}
	return out
}

func smtIntVal(v string) (int64, bool) {
	ns := smtInts(v)
	if len(ns) == 1 {
		return ns[0], true
	}
	return 0, false
}

// shaping constraints: prefer small, replayable models.
func (u *Unit) shape(probes []probe, level int) []*Term {
	c := u.c
	var out []*Term
	if level >= 2 {
		return nil
	}
	// pointers to different types do not alias in Go
	var ptrs []probe
	for _, p := range probes {
		if p.T.Sort == SRef && p.Type != nil && p.T.Op != "ctor" {
			if _, ok := p.Type.Underlying().(*types.Pointer); ok {
				ptrs = append(ptrs, p)
			}
		}
	}
	if len(ptrs) <= 40 {
		for i := range ptrs {
			for j := i + 1; j < len(ptrs); j++ {
				if !types.Identical(ptrs[i].Type, ptrs[j].Type) {
					out = append(out, c.Or(c.Eq(ptrs[i].T, c.Nil()), c.Neq(c.Root(ptrs[i].T), c.Root(ptrs[j].T))))
				}
			}
		}
	}
	for _, p := range probes {
		switch p.T.Sort {
		case SInt:
			if p.T.Op == "int" {
				continue
			}
			if p.Type != nil && isTimeType(p.Type) {
				// zero, or a plausible instant (ns since 1970)
				lo, hi := c.IntStr("1500000000000000000"), c.IntStr("1900000000000000000")
				out = append(out, c.Or(c.Eq(p.T, c.Int(0)), c.And(c.Le(lo, p.T), c.Le(p.T, hi))))
			} else if p.Type != nil && strings.HasSuffix(typeName(p.Type), "time.Duration") {
				b := c.IntStr("100000000000000")
				out = append(out, c.And(c.Le(c.Neg(b), p.T), c.Le(p.T, b)))
			} else if level == 0 {
				if n, ok := types.Unalias(p.Type).(*types.Named); ok && n.Obj().Pkg() != nil && n.Obj().Pkg().Path() != "time" {
					// enum-like named integer types: prefer the zero value
					out = append(out, c.Eq(p.T, c.Int(0)))
				} else {
					out = append(out, c.And(c.Le(c.Int(-1000), p.T), c.Le(p.T, c.Int(100000))))
				}
			}
		case SRef:
			if p.T.Op == "ctor" {
				continue
			}
			out = append(out, c.Eq(c.PathOf(p.T), c.PNil()))
		case SSlice:
			out = append(out, c.And(c.Le(c.SLen(p.T), c.Int(3)), c.Eq(c.SOff(p.T), c.Int(0)), c.Eq(c.PathOf(c.SArr(p.T)), c.PNil()), c.Le(c.SCap(p.T), c.Int(8))))
		}
	}
	return out
}

type goBuilder struct {
	u       *Unit
	imports map[string]string // path -> alias
	pkg     *types.Package
	lines   []string
	objs    map[string]string // model root -> variable name
	objType map[string]types.Type
	strs    map[string]string // abstract Str value -> Go string
	nstr    int
	problems []string
}

func (g *goBuilder) qualifier(p *types.Package) string {
	if p == g.pkg {
		return ""
	}
	if a, ok := g.imports[p.Path()]; ok {
		return a
	}
	base := p.Name()
	alias := base
	n := 1
	for {
		clash := false
		for _, a := range g.imports {
			if a == alias {
				clash = true
			}
		}
		if !clash {
			break
		}
		n++
		alias = fmt.Sprintf("%s%d", base, n)
	}
	g.imports[p.Path()] = alias
	return alias
}

func (g *goBuilder) typeStr(t types.Type) string { return types.TypeString(t, g.qualifier) }

func (g *goBuilder) goString(v string) string {
	if strings.HasPrefix(v, "\"") {
		return v
	}
	if s, ok := g.strs[v]; ok {
		return strconv.Quote(s)
	}
	g.nstr++
	s := fmt.Sprintf("s%d", g.nstr)
	g.strs[v] = s
	return strconv.Quote(s)
}

// leafValue renders a model value of Go type t as a Go expression ("" = leave zero).
func (g *goBuilder) leafValue(t types.Type, v string) string {
	if isTimeType(t) {
		n, ok := smtIntVal(v)
		if !ok || n == 0 {
			return ""
		}
		g.qualifierByPath("time")
		return fmt.Sprintf("time.Unix(0, %d).UTC()", n)
	}
	if _, ok := opaqueSortName(t); ok {
		return ""
	}
	switch tt := t.Underlying().(type) {
	case *types.Basic:
		info := tt.Info()
		switch {
		case info&types.IsBoolean != 0:
			if v == "true" {
				return "true"
			}
			return ""
		case info&types.IsInteger != 0:
			n, ok := smtIntVal(v)
			if !ok || n == 0 {
				return ""
			}
			return fmt.Sprintf("%s(%d)", g.typeStr(t), n)
		case info&types.IsString != 0:
			s := g.goString(v)
			if s == `""` {
				return ""
			}
			return fmt.Sprintf("%s(%s)", g.typeStr(t), s)
		}
	}
	return ""
}

func (g *goBuilder) qualifierByPath(path string) {
	if _, ok := g.imports[path]; !ok {
		g.imports[path] = filepath.Base(path)
	}
}

// build emits assignments for every live input probe (parents come first in probe order).
func (g *goBuilder) build(probes []probe, vals map[string]string) {
	for _, p := range probes {
		v := vals[p.Label]
		if v == "" {
			continue
		}
		if strings.HasSuffix(p.Label, "?") {
			continue // map presence probes are handled with their value
		}
		lhs := p.Label
		// map element: only assign when present
		if strings.HasSuffix(lhs, "]") && strings.Contains(lhs, "[\"") {
			if pres, ok := vals[lhs+"?"]; ok && pres != "true" {
				continue
			}
		}
		switch tt := p.Type.Underlying().(type) {
		case *types.Pointer:
			root, rooted, ok := parseRef(v)
			if !ok || root == "0" {
				continue
			}
			if !rooted {
				g.problems = append(g.problems, "interior pointer in model at "+p.Label)
				continue
			}
			name, seen := g.objs[root]
			if !seen {
				name = fmt.Sprintf("o%d", len(g.objs))
				g.objs[root] = name
				g.objType[root] = tt.Elem()
				g.lines = append(g.lines, fmt.Sprintf("%s := new(%s)", name, g.typeStr(tt.Elem())))
			} else if !types.Identical(g.objType[root], tt.Elem()) {
				g.problems = append(g.problems, "object aliased at two types at "+p.Label)
				continue
			}
			g.lines = append(g.lines, fmt.Sprintf("%s = %s", lhs, name))
		case *types.Map:
			root, _, ok := parseRef(v)
			if !ok || root == "0" {
				continue
			}
			g.lines = append(g.lines, fmt.Sprintf("%s = %s{}", lhs, g.typeStr(p.Type)))
		case *types.Slice:
			root, _, n, _, ok := parseSlice(v)
			if !ok || root == "0" {
				continue
			}
			if n > 3 {
				g.problems = append(g.problems, fmt.Sprintf("slice of length %d in model at %s", n, p.Label))
				n = 3
			}
			g.lines = append(g.lines, fmt.Sprintf("%s = make(%s, %d)", lhs, g.typeStr(p.Type), n))
			_ = tt
		case *types.Interface, *types.Signature, *types.Chan:
			continue
		default:
			if gv := g.leafValue(p.Type, v); gv != "" {
				g.lines = append(g.lines, fmt.Sprintf("%s = %s", lhs, gv))
			}
		}
	}
}

// canonical rendering of a model value for comparison with the observed one
func (g *goBuilder) canon(t types.Type, v string) string {
	if t == nil {
		return v
	}
	if isTimeType(t) {
		n, _ := smtIntVal(v)
		return fmt.Sprintf("%d", n)
	}
	switch t.Underlying().(type) {
	case *types.Pointer, *types.Map:
		root, rooted, ok := parseRef(v)
		if !ok {
			return v
		}
		if root == "0" {
			return "nil"
		}
		if name, seen := g.objs[root]; seen && rooted {
			return name
		}
		return "other"
	case *types.Slice:
		_, _, n, _, ok := parseSlice(v)
		if !ok {
			return v
		}
		return fmt.Sprintf("len=%d", n)
	case *types.Basic:
		if n, ok := smtIntVal(v); ok {
			return fmt.Sprintf("%d", n)
		}
		if v == "true" || v == "false" {
			return v
		}
		s := g.goString(v)
		if us, err := strconv.Unquote(s); err == nil {
			return "str:" + us
		}
		return "str:" + s
	}
	return v
}

func (e *Engine) replayObligation(opts Options, prop, base string, d Discharged) (string, bool) {
	o := d.O
	if o.Failed != nil {
		o = o.Failed
	}
	u := o.Unit
	fn := u.fn
	if fn == nil || fn.Parent() != nil || fn.Pkg == nil {
		return "", false
	}
	switch o.Kind {
	case "post", "nil", "index", "divzero", "assert", "mapwrite", "panic":
	default:
		return "", false
	}
	expectPanic := o.Kind != "post"
	// ---- probes
	var inProbes []probe
	for i, p := range fn.Params {
		u.walkProbes(p.Name(), u.args[i], p.Type(), 4, &inProbes)
	}
	inVC := map[int]bool{}
	var mark func(t *Term)
	mark = func(t *Term) {
		if inVC[t.id] {
			return
		}
		inVC[t.id] = true
		for _, a := range t.Args {
			mark(a)
		}
	}
	vcForProbes := o.VC()
	if d.V.Status != "refuted" {
		vcForProbes = o.RelaxedVC()
	}
	for _, a := range vcForProbes {
		mark(a)
	}
	isParamRoot := map[string]bool{}
	for _, p := range fn.Params {
		isParamRoot[p.Name()] = true
	}
	sigs := map[string]bool{}
	for id := range inVC {
		_ = id
	}
	var collectSigs func(t *Term, seen map[int]bool)
	collectSigs = func(t *Term, seen map[int]bool) {
		if seen[t.id] {
			return
		}
		seen[t.id] = true
		if sg := addrSig(t); sg != "" {
			sigs[sg] = true
		}
		for _, a := range t.Args {
			collectSigs(a, seen)
		}
	}
	seenSig := map[int]bool{}
	for _, a := range vcForProbes {
		collectSigs(a, seenSig)
	}
	var keep []probe
	for _, p := range inProbes {
		if inVC[p.T.id] || isParamRoot[p.Label] || p.Parent == "" || (strings.Contains(p.Label, "[") && sigs[addrSig(p.T)]) {
			keep = append(keep, p)
		}
	}
	inProbes = keep
	var outProbes []probe
	retState, retVals := u.retState, u.retVals
	if o.RetState != nil {
		retState, retVals = o.RetState, o.RetVals
	}
	if !expectPanic && retState != nil {
		saved := u.entry
		u.entry = retState // walkProbes loads from u.entry
		for i, rv := range retVals {
			var all []probe
			u.walkProbes(fmt.Sprintf("r%d", i), rv, fn.Signature.Results().At(i).Type(), 3, &all)
			inProp := map[int]bool{}
			var markP func(t *Term)
			markP = func(t *Term) {
				if inProp[t.id] {
					return
				}
				inProp[t.id] = true
				for _, a := range t.Args {
					markP(a)
				}
			}
			markP(o.Prop)
			for _, p := range all {
				if inProp[p.T.id] {
					outProbes = append(outProbes, p)
				}
			}
		}
		// post-state of what the parameters point to, as far as the clause reads it
		{
			inProp := map[int]bool{}
			var markP func(t *Term)
			markP = func(t *Term) {
				if inProp[t.id] {
					return
				}
				inProp[t.id] = true
				for _, a := range t.Args {
					markP(a)
				}
			}
			markP(o.Prop)
			for i, p := range fn.Params {
				var all []probe
				u.walkProbes(p.Name(), u.args[i], p.Type(), 3, &all)
				for _, q := range all {
					if q.Parent != "" && inProp[q.T.id] {
						q.Label = "post:" + q.Label
						q.Parent = ""
						outProbes = append(outProbes, q)
					}
				}
			}
		}
		u.entry = saved
	}
	// ---- model with shaping
	all := append(append([]probe{}, inProbes...), outProbes...)
	var vals map[string]string
	var raw string
	var err error
	baseVC := o.VC()
	if d.V.Status != "refuted" {
		// the solvers could not decide the full VC: look for a candidate in the quantifier-free relaxation; it only
		// counts if the real code reproduces it
		baseVC = o.RelaxedVC()
	}
	for level := 0; level <= 2; level++ {
		shaped := u.shape(all, level)
		vals, raw, err = o.GetValuesFor(append(append([]*Term{}, baseVC...), shaped...), all, 30, base+".model.smt2")
		if err == nil {
			break
		}
	}
	if err != nil {
		os.WriteFile(base+".txt", []byte(fmt.Sprintf("property: %s\nobligation: %s\nclause: %s\nverdict: refuted by %s but no model could be extracted for replay\n%s\n", prop, o.Name, o.Src, d.V.Backend, raw)), 0o644)
		return base + ".txt", false
	}
	inLive := liveProbes(inProbes, vals)
	outLive := liveProbes(outProbes, vals)
	// ---- build the Go test
	g := &goBuilder{u: u, imports: map[string]string{"fmt": "fmt", "testing": "testing", "os": "os"}, pkg: fn.Pkg.Pkg, objs: map[string]string{}, objType: map[string]types.Type{}, strs: map[string]string{}}
	var decl []string
	var callArgs []string
	for i, p := range fn.Params {
		name := "in_" + p.Name()
		decl = append(decl, fmt.Sprintf("var %s %s", name, g.typeStr(p.Type())))
		callArgs = append(callArgs, name)
		_ = i
	}
	// rewrite labels: parameters are prefixed
	ren := func(label string) string {
		for _, p := range fn.Params {
			label = replaceIdent(label, p.Name(), "in_"+p.Name())
		}
		return label
	}
	var inR []probe
	valsR := map[string]string{}
	for _, p := range inLive {
		q := p
		q.Label = ren(p.Label)
		q.Parent = ren(p.Parent)
		inR = append(inR, q)
		valsR[q.Label] = vals[p.Label]
	}
	for k, v := range vals {
		if strings.HasSuffix(k, "?") {
			valsR[ren(k)] = v
		}
	}
	g.build(inR, valsR)
	// call
	nres := fn.Signature.Results().Len()
	var lhs []string
	for i := 0; i < nres; i++ {
		lhs = append(lhs, fmt.Sprintf("r%d", i))
	}
	callee := fn.Name()
	args := callArgs
	if fn.Signature.Recv() != nil {
		callee = args[0] + "." + fn.Name()
		args = args[1:]
	}
	call := fmt.Sprintf("%s(%s)", callee, strings.Join(args, ", "))
	if nres > 0 {
		call = strings.Join(lhs, ", ") + " := " + call
	}
	expect := map[string]string{}
	var outs []string
	for _, p := range outLive {
		expect[p.Label] = g.canon(p.Type, vals[p.Label])
		outs = append(outs, p.Label)
	}
	var src strings.Builder
	src.WriteString("package " + fn.Pkg.Pkg.Name() + "\n\n// Generated by govc: replay of a counterexample for obligation\n//   " + o.Name + "\n//   " + o.Src + "\n\nimport (\n")
	// objects registry needs unsafe + reflect
	g.imports["reflect"] = "reflect"
	g.imports["time"] = "time"
	var ipaths []string
	for p := range g.imports {
		ipaths = append(ipaths, p)
	}
	sort.Strings(ipaths)
	body := g.lines
	for _, p := range ipaths {
		a := g.imports[p]
		if a == filepath.Base(p) {
			fmt.Fprintf(&src, "\t%q\n", p)
		} else {
			fmt.Fprintf(&src, "\t%s %q\n", a, p)
		}
	}
	src.WriteString(")\n\nvar _ = time.Now\nvar _ = os.Exit\n\n")
	src.WriteString("func TestVerifReplay(t *testing.T) {\n")
	for _, l := range decl {
		src.WriteString("\t" + l + "\n")
	}
	for _, l := range body {
		src.WriteString("\t" + l + "\n")
	}
	src.WriteString("\tobjs := map[uintptr]string{}\n")
	var onames []string
	for _, n := range g.objs {
		onames = append(onames, n)
	}
	sort.Strings(onames)
	for _, n := range onames {
		fmt.Fprintf(&src, "\tobjs[reflect.ValueOf(%s).Pointer()] = %q\n", n, n)
	}
	src.WriteString(`	show := func(label string, f func() interface{}) {
		defer func() {
			if r := recover(); r != nil {
				fmt.Printf("VERIF-OUT %s=PANIC\n", label)
			}
		}()
		v := f()
		rv := reflect.ValueOf(v)
		switch {
		case !rv.IsValid():
			fmt.Printf("VERIF-OUT %s=nil\n", label)
		case rv.Kind() == reflect.Ptr || rv.Kind() == reflect.Map:
			if rv.IsNil() {
				fmt.Printf("VERIF-OUT %s=nil\n", label)
			} else if n, ok := objs[rv.Pointer()]; ok {
				fmt.Printf("VERIF-OUT %s=%s\n", label, n)
			} else {
				fmt.Printf("VERIF-OUT %s=other\n", label)
			}
		case rv.Kind() == reflect.Slice:
			fmt.Printf("VERIF-OUT %s=len=%d\n", label, rv.Len())
		case rv.Type() == reflect.TypeOf(time.Time{}):
			tm := v.(time.Time)
			if tm.IsZero() {
				fmt.Printf("VERIF-OUT %s=0\n", label)
			} else {
				fmt.Printf("VERIF-OUT %s=%d\n", label, tm.UnixNano())
			}
		case rv.Kind() == reflect.String:
			fmt.Printf("VERIF-OUT %s=str:%s\n", label, rv.String())
		case rv.Kind() == reflect.Bool:
			fmt.Printf("VERIF-OUT %s=%v\n", label, rv.Bool())
		case rv.CanInt():
			fmt.Printf("VERIF-OUT %s=%d\n", label, rv.Int())
		case rv.CanUint():
			fmt.Printf("VERIF-OUT %s=%d\n", label, rv.Uint())
		default:
			fmt.Printf("VERIF-OUT %s=%v\n", label, v)
		}
	}
	_ = show
`)
	if expectPanic {
		src.WriteString("\tdefer func() {\n\t\tif r := recover(); r != nil {\n\t\t\tfmt.Printf(\"VERIF-PANIC %v\\n\", r)\n\t\t}\n\t}()\n")
	}
	src.WriteString("\t" + call + "\n")
	for i := 0; i < nres; i++ {
		fmt.Fprintf(&src, "\t_ = r%d\n", i)
	}
	if expectPanic {
		src.WriteString("\tfmt.Println(\"VERIF-NOPANIC\")\n")
	}
	for _, l := range outs {
		expr := l
		if strings.HasPrefix(l, "post:") {
			expr = ren(l[len("post:"):])
		}
		fmt.Fprintf(&src, "\tshow(%q, func() interface{} { return %s })\n", l, expr)
	}
	src.WriteString("}\n")
	testFile := base + "_replay_test.go"
	os.WriteFile(testFile, []byte(src.String()), 0o644)
	// ---- spec file
	pkgDir := ""
	for _, p := range e.pkgs {
		if p.Types == fn.Pkg.Pkg && len(p.GoFiles) > 0 {
			pkgDir = filepath.Dir(p.GoFiles[0])
		}
	}
	modDir := e.RepoDir
	if strings.HasPrefix(pkgDir, filepath.Join(e.RepoDir, "api")+string(filepath.Separator)) || pkgDir == filepath.Join(e.RepoDir, "api") {
		modDir = filepath.Join(e.RepoDir, "api")
	}
	var inputs []string
	for _, p := range inR {
		if v := valsR[p.Label]; v != "" {
			inputs = append(inputs, p.Label+" = "+v)
		}
	}
	rs := replaySpec{Property: prop, Obligation: o.Name, Kind: o.Kind, Clause: o.Src, Function: fn.String(), PkgDir: pkgDir, ModDir: modDir,
		TestFile: testFile, Expect: expect, ExpectPanic: expectPanic, Inputs: inputs, Tries: 1}
	if len(u.mapAxDone) > 0 || strings.Contains(raw, "mkeys_") {
		rs.Tries = 300
	}
	specPath := base + ".replay.json"
	writeJSON(specPath, rs)
	if len(g.problems) > 0 {
		f, _ := os.OpenFile(specPath+".notes", os.O_CREATE|os.O_WRONLY|os.O_TRUNC, 0o644)
		fmt.Fprintln(f, strings.Join(g.problems, "\n"))
		f.Close()
	}
	ok, log := runReplay(rs)
	os.WriteFile(base+".replay.log", []byte(log), 0o644)
	return specPath, ok
}

func replaceIdent(s, name, with string) string {
	re := regexp.MustCompile(`(^|[^A-Za-z0-9_."])` + regexp.QuoteMeta(name) + `($|[^A-Za-z0-9_"])`)
	return re.ReplaceAllString(s, "${1}"+with+"${2}")
}

// runReplay executes the generated test against the real package and compares outputs.
func runReplay(rs replaySpec) (bool, string) {
	target := filepath.Join(rs.PkgDir, "zz_verif_replay_test.go")
	ov := map[string]map[string]string{"Replace": {target: rs.TestFile}}
	ovPath := rs.TestFile + ".overlay.json"
	data, _ := json.Marshal(ov)
	os.WriteFile(ovPath, data, 0o644)
	var log strings.Builder
	tries := rs.Tries
	if tries < 1 {
		tries = 1
	}
	args := []string{"test", "-overlay", ovPath, "-vet=off", "-count=1", "-timeout", "120s", "-run", "^TestVerifReplay$", "-v", "."}
	if tries > 1 {
		args = []string{"test", "-overlay", ovPath, "-vet=off", fmt.Sprintf("-count=%d", tries), "-timeout", "300s", "-run", "^TestVerifReplay$", "-v", "."}
	}
	ctx, cancel := context.WithTimeout(context.Background(), 400*time.Second)
	defer cancel()
	cmd := exec.CommandContext(ctx, "go", args...)
	cmd.Dir = rs.PkgDir
	cmd.Env = append(os.Environ(), "GOFLAGS=", "GOPROXY=off", "GOSUMDB=off", "GOTOOLCHAIN=local")
	var out bytes.Buffer
	cmd.Stdout = &out
	cmd.Stderr = &out
	err := cmd.Run()
	log.WriteString(out.String())
	if err != nil {
		fmt.Fprintf(&log, "\n(go test exit: %v)\n", err)
	}
	// split the output per run
	runs := strings.Split(out.String(), "=== RUN")
	for _, run := range runs[1:] {
		if rs.ExpectPanic {
			if strings.Contains(run, "VERIF-PANIC") {
				fmt.Fprintf(&log, "\nCONFIRMED: the real function panics on the model input\n")
				return true, log.String()
			}
			// a panic outside our recover (e.g. in a goroutine) also counts
			if strings.Contains(run, "panic:") && !strings.Contains(run, "VERIF-NOPANIC") {
				fmt.Fprintf(&log, "\nCONFIRMED: the real function panics on the model input\n")
				return true, log.String()
			}
			continue
		}
		got := map[string]string{}
		for _, line := range strings.Split(run, "\n") {
			line = strings.TrimSpace(line)
			if strings.HasPrefix(line, "VERIF-OUT ") {
				kv := strings.SplitN(line[len("VERIF-OUT "):], "=", 2)
				if len(kv) == 2 {
					got[kv[0]] = kv[1]
				}
			}
		}
		if len(got) == 0 {
			continue
		}
		match := true
		for k, want := range rs.Expect {
			if got[k] != want {
				match = false
			}
		}
		if match {
			fmt.Fprintf(&log, "\nCONFIRMED: the real function produces the outputs of the counterexample, for which the clause is false\n")
			return true, log.String()
		}
	}
	fmt.Fprintf(&log, "\nNOT CONFIRMED: real outputs differ from the model's (expected %v)\n", rs.Expect)
	return false, log.String()
}

func replayFile(opts Options, file string) int {
	data, err := os.ReadFile(file)
	if err != nil {
		fmt.Fprintln(os.Stderr, err)
		return 2
	}
	var rs replaySpec
	if json.Unmarshal(data, &rs) != nil || rs.TestFile == "" {
		// a textual report: print it
		fmt.Print(string(data))
		return 1
	}
	ok, log := runReplay(rs)
	fmt.Print(log)
	fmt.Printf("\nobligation: %s\nclause: %s\n", rs.Obligation, rs.Clause)
	if ok {
		fmt.Printf("VIOLATION property=%s replay=%s\n", rs.Property, file)
		return 1
	}
	return 0
}



// addrSig characterises a heap read by its array and the last field step of its address.
func addrSig(t *Term) string {
	if t.Op != "select" || len(t.Args) != 2 || t.Args[1].Sort != SRef {
		return ""
	}
	a := t.Args[1]
	if a.Op != "ctor" || a.Name != "mkref" {
		return ""
	}
	p := a.Args[1]
	if p.Op == "ctor" && p.Name == "pf" {
		return t.Sort.Name + "/f" + p.Args[1].Name
	}
	if p.Op == "ctor" && p.Name == "pe" {
		return t.Sort.Name + "/e"
	}
	return ""
}
