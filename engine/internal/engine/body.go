package engine

import (
	"go/token"
	"sort"

	"golang.org/x/tools/go/ssa"
)

// ---------------------------------------------------------------------------
// Loop structure of an SSA function
// ---------------------------------------------------------------------------

type loopInfo struct {
	header  *ssa.BasicBlock
	blocks  map[*ssa.BasicBlock]bool
	ordinal int // 1-based, in source order of the header
	pos     token.Pos
}

type fnInfo struct {
	fn      *ssa.Function
	order   []*ssa.BasicBlock // reverse post-order ignoring back edges
	loops   map[*ssa.BasicBlock]*loopInfo
	isBack  map[[2]int]bool // (from,to) block indices
	loopsIn []*loopInfo
}

func dominates(a, b *ssa.BasicBlock) bool { return a.Dominates(b) }

func (e *Engine) info(fn *ssa.Function) *fnInfo {
	if fi, ok := e.fnInfos[fn]; ok {
		return fi
	}
	fi := &fnInfo{fn: fn, loops: map[*ssa.BasicBlock]*loopInfo{}, isBack: map[[2]int]bool{}}
	for _, b := range fn.Blocks {
		for _, s := range b.Succs {
			if dominates(s, b) {
				fi.isBack[[2]int{b.Index, s.Index}] = true
				li := fi.loops[s]
				if li == nil {
					li = &loopInfo{header: s, blocks: map[*ssa.BasicBlock]bool{s: true}}
					fi.loops[s] = li
				}
				// natural loop body: nodes that reach b without passing through s
				stack := []*ssa.BasicBlock{b}
				for len(stack) > 0 {
					x := stack[len(stack)-1]
					stack = stack[:len(stack)-1]
					if li.blocks[x] {
						continue
					}
					li.blocks[x] = true
					for _, p := range x.Preds {
						stack = append(stack, p)
					}
				}
			}
		}
	}
	// loop positions: smallest valid instruction position inside the header (or loop blocks)
	for _, li := range fi.loops {
		li.pos = loopPos(li)
		fi.loopsIn = append(fi.loopsIn, li)
	}
	sort.Slice(fi.loopsIn, func(i, j int) bool {
		if fi.loopsIn[i].pos != fi.loopsIn[j].pos {
			return fi.loopsIn[i].pos < fi.loopsIn[j].pos
		}
		return fi.loopsIn[i].header.Index < fi.loopsIn[j].header.Index
	})
	for i, li := range fi.loopsIn {
		li.ordinal = i + 1
	}
	// RPO without back edges
	seen := map[*ssa.BasicBlock]bool{}
	var post []*ssa.BasicBlock
	var dfs func(b *ssa.BasicBlock)
	dfs = func(b *ssa.BasicBlock) {
		seen[b] = true
		for _, s := range b.Succs {
			if fi.isBack[[2]int{b.Index, s.Index}] || seen[s] {
				continue
			}
			dfs(s)
		}
		post = append(post, b)
	}
	if len(fn.Blocks) > 0 {
		dfs(fn.Blocks[0])
	}
	for i := len(post) - 1; i >= 0; i-- {
		fi.order = append(fi.order, post[i])
	}
	e.fnInfos[fn] = fi
	return fi
}

func loopPos(li *loopInfo) token.Pos {
	best := token.NoPos
	consider := func(p token.Pos) {
		if p.IsValid() && (!best.IsValid() || p < best) {
			best = p
		}
	}
	scan := func(b *ssa.BasicBlock) {
		for _, in := range b.Instrs {
			switch in.(type) {
			case *ssa.DebugRef, *ssa.Phi:
				continue // a phi carries the position of the variable's declaration, which may precede the loop
			}
			consider(in.Pos())
		}
	}
	scan(li.header)
	if best.IsValid() {
		return best
	}
	for b := range li.blocks {
		scan(b)
	}
	return best
}

// ---------------------------------------------------------------------------
// Executing a function body on the merged-state DAG
// ---------------------------------------------------------------------------

type retPoint struct {
	guard *Term
	vals  []*SV
	st    *State
	pos   token.Pos
	// nAssume: number of assumptions recorded when this return was reached (blocks are visited in reverse post-order, so
	// everything recorded later belongs to paths that do not lead here)
	nAssume int
}

type frameCtx struct {
	fn     *ssa.Function
	vals   map[ssa.Value]*SV
	top    bool // the unit's own function (contracts for loops apply, frame checks apply)
	con    *Contract
	spec   bool // executing inside a specification (no obligations, no writes expected)
	defers []*ssa.Defer
	// loop frames created so far for this invocation
	loops    []*activeLoop
	active   []*activeLoop // loops containing the current block (outermost first)
	curBlock *ssa.BasicBlock
	loopRT   map[*loopInfo]*loopRuntime
}

type activeLoop struct {
	li    *loopInfo
	frame *FrameSpec
	bound *Term // alloc at loop entry
}

func (u *Unit) runBody(fn *ssa.Function, args []*SV, freeVars []*SV, st0 *State, pc0 *Term, top bool, con *Contract, spec bool) []retPoint {
	if len(fn.Blocks) == 0 {
		panic(unsupported("no body for %s", fn.String()))
	}
	fi := u.e.info(fn)
	fc := &frameCtx{fn: fn, vals: map[ssa.Value]*SV{}, top: top, con: con, spec: spec}
	for i, p := range fn.Params {
		fc.vals[p] = args[i]
	}
	for i, fv := range fn.FreeVars {
		fc.vals[fv] = freeVars[i]
	}
	in := map[*ssa.BasicBlock][]edge{}
	in[fn.Blocks[0]] = []edge{{nil, pc0, st0}}
	var rets []retPoint
	c := u.c
	for _, b := range fi.order {
		edges := in[b]
		if len(edges) == 0 {
			continue
		}
		fc.curBlock = b
		pc, st := u.mergeStates(edges)
		if pc.IsFalse() {
			continue
		}
		li := fi.loops[b]
		// phis
		instrs := b.Instrs
		nphi := 0
		for _, insn := range instrs {
			phi, ok := insn.(*ssa.Phi)
			if !ok {
				break
			}
			nphi++
			var acc *SV
			for i := len(edges) - 1; i >= 0; i-- {
				idx := predIndex(b, edges[i].from)
				v := u.val(fc, phi.Edges[idx])
				if acc == nil {
					acc = v
				} else {
					acc = u.iteSV(edges[i].guard, v, acc)
				}
			}
			fc.vals[phi] = acc
		}
		if li != nil {
			u.loopHeader(fc, fi, li, st, pc)
		}
		fc.active = fc.active[:0]
		for _, al := range fc.loops {
			if al.li.blocks[b] {
				fc.active = append(fc.active, al)
			}
		}
		terminated := false
		for _, insn := range instrs[nphi:] {
			switch t := insn.(type) {
			case *ssa.If:
				cond := u.val(fc, t.Cond).T
				u.addEdge(fc, fi, in, b, b.Succs[0], c.And(pc, cond), st)
				u.addEdge(fc, fi, in, b, b.Succs[1], c.And(pc, c.Not(cond)), st)
				terminated = true
			case *ssa.Jump:
				u.addEdge(fc, fi, in, b, b.Succs[0], pc, st)
				terminated = true
			case *ssa.Return:
				var vals []*SV
				for _, r := range t.Results {
					vals = append(vals, u.val(fc, r))
				}
				rets = append(rets, retPoint{pc, vals, st, t.Pos(), len(u.assumptions)})
				terminated = true
			case *ssa.Panic:
				if !spec {
					u.oblige("panic", "explicit", []string{"C16"}, pc, c.False(), "explicit panic reachable", t.Pos())
				}
				terminated = true
			default:
				u.exec(fc, st, pc, insn)
			}
			if terminated {
				break
			}
		}
	}
	return rets
}

func predIndex(b, from *ssa.BasicBlock) int {
	for i, p := range b.Preds {
		if p == from {
			return i
		}
	}
	panic("pred not found")
}

