package engine

import (
	"bytes"
	"crypto/sha256"
	"encoding/hex"
	"context"
	"fmt"
	"os"
	"os/exec"
	"path/filepath"
	"strings"
	"sync"
	"time"
)

type Verdict struct {
	Status  string // proved, refuted, undecided
	Backend string
	Seconds float64
	Output  string // solver output of the deciding (or last) solver
	Model   string
	Bytes   int
	File    string
}

type solverSpec struct {
	name string
	args func(file string, timeoutS int) []string
}

var solvers = []solverSpec{
	{"z3-new", func(f string, t int) []string { return []string{"z3-new", fmt.Sprintf("-T:%d", t), f} }},
	{"z3", func(f string, t int) []string { return []string{"z3", fmt.Sprintf("-T:%d", t), f} }},
	{"cvc5", func(f string, t int) []string {
		return []string{"cvc5", fmt.Sprintf("--tlimit=%d", t*1000), "--produce-models", f}
	}},
}

// Solve races the installed solvers on one script. wantSat is for cover queries.
// proofCache remembers scripts that a solver has already answered unsat (keyed by the hash of the exact script): the
// same verification condition is generated again when a unit serves several properties.
var proofCacheDir = ""

func cacheKey(script string) string {
	h := sha256.Sum256([]byte(script))
	return hex.EncodeToString(h[:])
}

func Solve(script, file string, timeoutS int, all bool) Verdict {
	if proofCacheDir != "" && !all {
		if data, err := os.ReadFile(filepath.Join(proofCacheDir, cacheKey(script))); err == nil {
			parts := strings.SplitN(strings.TrimSpace(string(data)), " ", 2)
			if len(parts) == 2 && parts[0] == "unsat" {
				return Verdict{Status: "proved", Backend: parts[1] + " (cached)", Output: "unsat", Bytes: len(script), File: file}
			}
		}
	}
	v := solveUncached(script, file, timeoutS, all)
	if proofCacheDir != "" && v.Status == "proved" {
		os.MkdirAll(proofCacheDir, 0o755)
		os.WriteFile(filepath.Join(proofCacheDir, cacheKey(script)), []byte("unsat "+v.Backend+"\n"), 0o644)
	}
	return v
}

func solveUncached(script, file string, timeoutS int, all bool) Verdict {
	os.MkdirAll(filepath.Dir(file), 0o755)
	os.WriteFile(file, []byte(script), 0o644)
	ctx, cancel := context.WithTimeout(context.Background(), time.Duration(timeoutS+2)*time.Second)
	defer cancel()
	type res struct {
		name, first, out string
		secs             float64
	}
	ch := make(chan res, len(solvers))
	var wg sync.WaitGroup
	for _, s := range solvers {
		wg.Add(1)
		go func(s solverSpec) {
			defer wg.Done()
			a := s.args(file, timeoutS)
			t0 := time.Now()
			cmd := exec.CommandContext(ctx, a[0], a[1:]...)
			var out bytes.Buffer
			cmd.Stdout = &out
			cmd.Stderr = &out
			cmd.Run()
			first := ""
			for _, ln := range strings.Split(out.String(), "\n") {
				ln = strings.TrimSpace(ln)
				if ln == "sat" || ln == "unsat" || ln == "unknown" || ln == "timeout" {
					first = ln
					break
				}
			}
			if first == "" {
				first = strings.TrimSpace(strings.SplitN(out.String(), "\n", 2)[0])
			}
			ch <- res{s.name, first, out.String(), time.Since(t0).Seconds()}
		}(s)
	}
	go func() { wg.Wait(); close(ch) }()
	v := Verdict{Status: "undecided", Bytes: len(script), File: file}
	var outs []string
	sawSat, sawUnsat := "", ""
	for r := range ch {
		outs = append(outs, r.name+": "+r.first)
		switch r.first {
		case "unsat":
			if sawUnsat == "" {
				sawUnsat = r.name
				if v.Status != "refuted" {
					v = Verdict{Status: "proved", Backend: r.name, Seconds: r.secs, Output: r.first, Bytes: len(script), File: file}
				}
			}
			if !all {
				cancel()
			}
		case "sat":
			if sawSat == "" {
				sawSat = r.name
				v = Verdict{Status: "refuted", Backend: r.name, Seconds: r.secs, Output: r.first, Model: r.out, Bytes: len(script), File: file}
			}
			if !all {
				cancel()
			}
		default:
			if v.Status == "undecided" {
				v.Seconds = r.secs
			}
		}
	}
	if sawSat != "" && sawUnsat != "" {
		v.Status = "conflict"
		v.Output = fmt.Sprintf("solver disagreement: %s says sat, %s says unsat", sawSat, sawUnsat)
		return v
	}
	if v.Status == "undecided" {
		v.Output = strings.Join(outs, "; ")
	}
	return v
}
