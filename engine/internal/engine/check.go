package engine

import (
	"fmt"
	"os"
	"path/filepath"
	"sort"
	"strings"
	"sync"
	"time"
)

type Options struct {
	Repo    string
	Verif   string
	Tier    string
	Verbose bool
	Keep    bool
}

func (o Options) timeout() int {
	if o.Tier == "thorough" {
		return 120
	}
	return 15
}

type Discharged struct {
	O *Obligation
	V Verdict
}

func fileSafe(s string) string {
	r := strings.NewReplacer("/", "__", "(", "", ")", "", "*", "p", " ", "_", "$", "S", "~", "-", ":", "_", "@", "_at_")
	return r.Replace(s)
}

// dischargeAll runs every obligation through the solver race, 16 at a time.
func dischargeAll(opts Options, outDir string, obls []*Obligation) []Discharged {
	res := make([]Discharged, len(obls))
	// scripts are rendered sequentially per unit (TermCtx is not thread safe), solved in parallel
	scripts := make([]string, len(obls))
	for i, o := range obls {
		scripts[i] = o.Script(true)
	}
	sem := make(chan struct{}, 6) // 3 solvers per obligation
	var wg sync.WaitGroup
	for i := range obls {
		wg.Add(1)
		go func(i int) {
			defer wg.Done()
			sem <- struct{}{}
			defer func() { <-sem }()
			o := obls[i]
			file := filepath.Join(outDir, fileSafe(o.Name)+".smt2")
			v := Solve(scripts[i], file, opts.timeout(), opts.Tier == "thorough")
			if o.Cover {
				// cover queries must be satisfiable
				switch v.Status {
				case "refuted":
					v.Status = "proved"
					v.Model = ""
				case "proved":
					v.Status = "vacuous"
				}
			}
			if v.Status == "proved" && !opts.Keep {
				os.Remove(file)
			}
			res[i] = Discharged{o, v}
		}(i)
	}
	wg.Wait()
	return res
}

// CmdUnit: debug entry point.
func CmdUnit(opts Options, pats []string) int {
	t0 := time.Now()
	e, err := Load(opts.Repo, opts.Verif)
	if err != nil {
		fmt.Fprintln(os.Stderr, "load:", err)
		return 2
	}
	fmt.Printf("loaded in %.1fs, %d contracts\n", time.Since(t0).Seconds(), len(e.contracts))
	var names []string
	for n, c := range e.contracts {
		if c.External {
			continue
		}
		for _, p := range pats {
			if strings.Contains(n, p) {
				names = append(names, n)
				break
			}
		}
	}
	sort.Strings(names)
	rc := 0
	out := filepath.Join(opts.Verif, "out", "unit")
	for _, n := range names {
		r := e.VerifyFunction(n)
		rc |= printUnit(opts, out, r)
	}
	for _, l := range e.lemmas {
		for _, p := range pats {
			if strings.Contains("lemma:"+l.Name, p) {
				rc |= printUnit(opts, out, e.VerifyLemma(l))
			}
		}
	}
	return rc
}

func printUnit(opts Options, out string, r *UnitResult) int {
	rc := 0
	fmt.Printf("== %s  (%d obligations)\n", r.Name, len(r.Obligations))
	if r.Err != nil {
		fmt.Println("   ERROR:", r.Err)
		rc = 2
	}
	if r.Unit != nil {
		for _, w := range r.Unit.warnings {
			fmt.Println("   warning:", w)
		}
	}
	ds := dischargeAll(opts, out, r.Obligations)
	for _, d := range ds {
		fmt.Printf("   %-9s %-8s %6.2fs %7dB  %s  %v\n", d.V.Status, d.V.Backend, d.V.Seconds, d.V.Bytes, d.O.Name, d.O.Tags)
		if d.V.Status != "proved" {
			rc |= 1
			fmt.Printf("             %s\n             %s\n", d.O.Src, d.V.Output)
			if d.V.Status == "refuted" && opts.Verbose && d.O.Unit.fn != nil {
				explain(d.O, out)
			}
		}
	}
	return rc
}

func explain(o *Obligation, out string) {
	u := o.Unit
	var probes []probe
	for i, p := range u.fn.Params {
		u.walkProbes(p.Name(), u.args[i], p.Type(), 3, &probes)
	}
	inVC := map[int]bool{}
	var mark func(t *Term)
	mark = func(t *Term) {
		if inVC[t.id] {
			return
		}
		inVC[t.id] = true
		for _, a := range t.Args {
			mark(a)
		}
	}
	for _, a := range o.VC() {
		mark(a)
	}
	var keep []probe
	for _, p := range probes {
		if inVC[p.T.id] {
			keep = append(keep, p)
		}
	}
	probes = keep
	vals, raw, err := o.GetValues(probes, 20, filepath.Join(out, fileSafe(o.Name)+".model.smt2"))
	if err != nil {
		fmt.Println("             model:", err, strings.SplitN(raw, "\n", 2)[0])
		return
	}
	// which conjuncts of the proposition are false in the model?
	if o.Prop.Op == "and" {
		var cps []probe
		for i, cj := range o.Prop.Args {
			cps = append(cps, probe{Label: fmt.Sprintf("conjunct %d: %s", i, trunc(cj.String(), 300)), T: cj, Idx: -1})
		}
		if cv, _, err := o.GetValues(cps, 20, filepath.Join(out, fileSafe(o.Name)+".conj.smt2")); err == nil {
			for _, cp := range cps {
				if cv[cp.Label] == "false" {
					fmt.Println("               FALSE", cp.Label)
				}
			}
		}
	}
	for _, p := range liveProbes(probes, vals) {
		v := vals[p.Label]
		if v == "" || v == "0" || v == "false" || v == "(mkref 0 pnil)" || v == "\"\"" || strings.HasPrefix(v, "(mkslice (mkref 0 pnil)") {
			continue
		}
		fmt.Printf("               %s = %s\n", p.Label, v)
	}
}

func trunc(s string, n int) string {
	if len(s) > n {
		return s[:n] + "..."
	}
	return s
}
