package engine

import (
	"fmt"
	"os"
	"path/filepath"
	"sort"
	"strings"
	"sync"
	"time"
)

type Options struct {
	Repo    string
	Verif   string
	Tier    string
	Verbose bool
	Keep    bool
}

func (o Options) timeout() int {
	if v := os.Getenv("GOVC_TIMEOUT"); v != "" {
		var n int
		if _, err := fmt.Sscanf(v, "%d", &n); err == nil && n > 0 {
			return n
		}
	}
	if o.Tier == "thorough" {
		return 180
	}
	return 30
}

type Discharged struct {
	O *Obligation
	V Verdict
}

func fileSafe(s string) string {
	r := strings.NewReplacer("/", "__", "(", "", ")", "", "*", "p", " ", "_", "$", "S", "~", "-", ":", "_", "@", "_at_")
	return r.Replace(s)
}

// dischargeAll runs every obligation through the solver race (parts of a split obligation separately).
func dischargeAll(opts Options, outDir string, obls []*Obligation) []Discharged {
	type job struct {
		o      *Obligation
		parent int
	}
	var jobs []job
	for i, o := range obls {
		if len(o.Parts) > 0 {
			for _, p := range o.Parts {
				jobs = append(jobs, job{p, i})
			}
		} else {
			jobs = append(jobs, job{o, i})
		}
	}
	// scripts are rendered sequentially (TermCtx is not thread safe), solved in parallel
	scripts := make([]string, len(jobs))
	ground := make([]string, len(jobs))
	for i, j := range jobs {
		scripts[i] = j.o.Script(true)
		if !j.o.Cover && os.Getenv("GOVC_NOGROUND") == "" {
			// stage 1: the quantifier-free relaxation (quantified hypotheses replaced by their instances on the goal's
			// skolem constants and on the addresses read). It has fewer hypotheses, so unsat there is a proof.
			if rvc, ng := j.o.RelaxedVCGoal(); !hasQuant(ng) {
				ground[i] = j.o.Unit.c.Script(rvc, false, "")
			}
		}
	}
	verdicts := make([]Verdict, len(jobs))
	sem := make(chan struct{}, 6) // 3 solvers per obligation
	var wg sync.WaitGroup
	for i := range jobs {
		wg.Add(1)
		go func(i int) {
			defer wg.Done()
			sem <- struct{}{}
			defer func() { <-sem }()
			o := jobs[i].o
			file := filepath.Join(outDir, fileSafe(o.Name)+".smt2")
			var v Verdict
			if ground[i] != "" && ground[i] != scripts[i] {
				gfile := filepath.Join(outDir, fileSafe(o.Name)+".ground.smt2")
				gv := Solve(ground[i], gfile, opts.timeout(), false)
				if !opts.Keep {
					os.Remove(gfile)
				}
				if gv.Status == "proved" {
					gv.Backend += " (ground)"
					gv.File = file
					verdicts[i] = gv
					return
				}
			}
			v = Solve(scripts[i], file, opts.timeout(), opts.Tier == "thorough")
			if o.Cover {
				// cover queries must be satisfiable
				switch v.Status {
				case "refuted":
					v.Status = "proved"
					v.Model = ""
				case "proved":
					v.Status = "vacuous"
				}
			}
			if v.Status == "proved" && !opts.Keep {
				os.Remove(file)
			}
			verdicts[i] = v
		}(i)
	}
	wg.Wait()
	res := make([]Discharged, len(obls))
	for i, o := range obls {
		res[i] = Discharged{O: o}
	}
	rank := map[string]int{"": 0, "proved": 1, "undecided": 2, "vacuous": 3, "conflict": 4, "refuted": 5}
	for i, j := range jobs {
		d := &res[j.parent]
		v := verdicts[i]
		if len(obls[j.parent].Parts) == 0 {
			d.V = v
			continue
		}
		d.V.Seconds += v.Seconds
		d.V.Bytes += v.Bytes
		if obls[j.parent].Cover {
			// a reachability obligation split per return point holds as soon as one of them is reachable
			crank := map[string]int{"": 0, "vacuous": 1, "undecided": 2, "proved": 3}
			if crank[v.Status] > crank[d.V.Status] {
				secs, bytes := d.V.Seconds, d.V.Bytes
				d.V = v
				d.V.Seconds, d.V.Bytes = secs, bytes
			}
			continue
		}
		if rank[v.Status] > rank[d.V.Status] {
			secs, bytes := d.V.Seconds, d.V.Bytes
			d.V = v
			d.V.Seconds, d.V.Bytes = secs, bytes
			if v.Status != "proved" {
				obls[j.parent].Failed = j.o
			}
		}
	}
	return res
}

// CmdUnit: debug entry point.
func CmdUnit(opts Options, pats []string) int {
	t0 := time.Now()
	e, err := Load(opts.Repo, opts.Verif)
	if err != nil {
		fmt.Fprintln(os.Stderr, "load:", err)
		return 2
	}
	fmt.Printf("loaded in %.1fs, %d contracts\n", time.Since(t0).Seconds(), len(e.contracts))
	var names []string
	for n, c := range e.contracts {
		if c.External {
			continue
		}
		for _, p := range pats {
			if strings.Contains(n, p) || c.Display != "" && strings.Contains(c.Display, p) {
				names = append(names, n)
				break
			}
		}
	}
	sort.Strings(names)
	rc := 0
	out := filepath.Join(opts.Verif, "out", "unit")
	for _, n := range names {
		r := e.VerifyFunction(n)
		rc |= printUnit(opts, out, r)
	}
	for _, l := range e.lemmas {
		for _, p := range pats {
			if strings.Contains("lemma:"+l.Name, p) {
				rc |= printUnit(opts, out, e.VerifyLemma(l))
			}
		}
	}
	return rc
}

func printUnit(opts Options, out string, r *UnitResult) int {
	rc := 0
	fmt.Printf("== %s  (%d obligations)\n", r.Name, len(r.Obligations))
	if r.Err != nil {
		fmt.Println("   ERROR:", r.Err)
		rc = 2
	}
	if r.Unit != nil {
		for _, w := range r.Unit.warnings {
			fmt.Println("   warning:", w)
		}
	}
	obls := r.Obligations
	if only := os.Getenv("GOVC_ONLY"); only != "" {
		obls = nil
		for _, o := range r.Obligations {
			if strings.Contains(o.Name, only) {
				obls = append(obls, o)
			}
		}
	}
	ds := dischargeAll(opts, out, obls)
	for _, d := range ds {
		fmt.Printf("   %-9s %-8s %6.2fs %7dB  %s  %v\n", d.V.Status, d.V.Backend, d.V.Seconds, d.V.Bytes, d.O.Name, d.O.Tags)
		if d.V.Status != "proved" {
			rc |= 1
			fmt.Printf("             %s\n             %s\n", d.O.Src, d.V.Output)
			fo := d.O
			if fo.Failed != nil {
				fo = fo.Failed
				fmt.Println("             failing part:", fo.Name, "at", fo.Pos)
			}
			if d.V.Status == "refuted" && opts.Verbose && fo.Unit.fn != nil {
				explain(fo, out, fo.VC())
			}
			if d.V.Status == "undecided" && opts.Verbose && fo.Unit.fn != nil {
				fmt.Println("             candidate explanation from the quantifier-free relaxation:")
				rvc, ng := fo.RelaxedVCGoal()
				explainGoal(fo, out, rvc, ng)
			}
		}
	}
	return rc
}

func explain(o *Obligation, out string, vc []*Term) { explainGoal(o, out, vc, o.Prop) }

func explainGoal(o *Obligation, out string, vc []*Term, goal *Term) {
	u := o.Unit
	var probes []probe
	for i, p := range u.fn.Params {
		u.walkProbes(p.Name(), u.args[i], p.Type(), 3, &probes)
	}
	inVC := map[int]bool{}
	var mark func(t *Term)
	mark = func(t *Term) {
		if inVC[t.id] {
			return
		}
		inVC[t.id] = true
		for _, a := range t.Args {
			mark(a)
		}
	}
	for _, a := range vc {
		mark(a)
	}
	var keep []probe
	for _, p := range probes {
		if inVC[p.T.id] {
			keep = append(keep, p)
		}
	}
	probes = keep
	vals, raw, err := o.GetValuesFor(vc, probes, 20, filepath.Join(out, fileSafe(o.Name)+".model.smt2"))
	if err != nil {
		fmt.Println("             model:", err, strings.SplitN(raw, "\n", 2)[0])
		return
	}
	// values of the top-level pieces of the proposition
	{
		var pp []probe
		var walk func(t *Term, d int)
		walk = func(t *Term, d int) {
			if d > 5 || t.open || len(pp) > 40 {
				return
			}
			if len(t.Args) > 0 && t.Op != "and" {
				pp = append(pp, probe{Label: "term: " + trunc(t.String(), 160), T: t, Idx: -1})
			}
			for _, a := range t.Args {
				walk(a, d+1)
			}
		}
		walk(goal, 0)
		if pv, _, err := o.GetValuesFor(vc, pp, 90, filepath.Join(out, fileSafe(o.Name)+".prop.smt2")); err == nil {
			for _, q := range pp {
				fmt.Printf("               %s  ==  %s\n", q.Label, trunc(pv[q.Label], 80))
			}
		}
	}
	// which conjuncts of the proposition are false in the model?
	if o.Prop.Op == "and" {
		var cps []probe
		for i, cj := range o.Prop.Args {
			cps = append(cps, probe{Label: fmt.Sprintf("conjunct %d: %s", i, trunc(cj.String(), 300)), T: cj, Idx: -1})
		}
		if cv, _, err := o.GetValuesFor(vc, cps, 20, filepath.Join(out, fileSafe(o.Name)+".conj.smt2")); err == nil {
			for _, cp := range cps {
				if cv[cp.Label] == "false" {
					fmt.Println("               FALSE", cp.Label)
				}
			}
		}
	}
	for _, p := range liveProbes(probes, vals) {
		v := vals[p.Label]
		if v == "" || v == "0" || v == "false" || v == "(mkref 0 pnil)" || v == "\"\"" || strings.HasPrefix(v, "(mkslice (mkref 0 pnil)") {
			continue
		}
		fmt.Printf("               %s = %s\n", p.Label, v)
	}
}

func trunc(s string, n int) string {
	if len(s) > n {
		return s[:n] + "..."
	}
	return s
}
