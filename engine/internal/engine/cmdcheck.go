package engine

import (
	"encoding/json"
	"fmt"
	"os"
	"path/filepath"
	"sort"
	"strconv"
	"strings"
	"time"
)

type KnownFinding struct {
	Property   string `json:"property"`
	Obligation string `json:"obligation"`
	Status     string `json:"status"` // open | fixed
	Commit     string `json:"commit,omitempty"`
	What       string `json:"what"`
	Witness    string `json:"witness,omitempty"`
}

type Ledger struct {
	Property    string            `json:"property"`
	Proved      []string          `json:"proved"`
	Fingerprint map[string]string `json:"fingerprints"`
}

func loadKnown(verif string) []KnownFinding {
	var out struct {
		Findings []KnownFinding `json:"findings"`
	}
	data, err := os.ReadFile(filepath.Join(verif, "known_findings.json"))
	if err != nil {
		return nil
	}
	json.Unmarshal(data, &out)
	return out.Findings
}

func loadLedger(verif, prop string) *Ledger {
	data, err := os.ReadFile(filepath.Join(verif, "ledger", prop+".json"))
	if err != nil {
		return nil
	}
	var l Ledger
	if json.Unmarshal(data, &l) != nil {
		return nil
	}
	return &l
}

// belongs: does obligation o count for property prop?
func belongs(o *Obligation, prop string) bool {
	if len(o.Tags) == 0 {
		return true
	}
	for _, t := range o.Tags {
		if t == prop {
			return true
		}
	}
	return false
}

type propRun struct {
	prop       string
	units      []*UnitResult
	discharged []Discharged
	errors     []string
	trusted    map[string]bool
	assumed    map[string]bool
	warnings   []string
	genSecs    float64
	coversUndecided []string
}

func runProperty(e *Engine, opts Options, prop string) *propRun {
	pr := &propRun{prop: prop, trusted: map[string]bool{}, assumed: map[string]bool{}}
	t0 := time.Now()
	fns, lemmas := e.UnitsFor(prop)
	var obls []*Obligation
	done := map[string]bool{}
	for len(fns) > 0 {
		n := fns[0]
		fns = fns[1:]
		if done[n] {
			continue
		}
		done[n] = true
		r := e.VerifyFunction(n)
		pr.units = append(pr.units, r)
		if r.Trusted {
			pr.trusted[r.Name] = true
			continue
		}
		if r.Err != nil {
			pr.errors = append(pr.errors, r.Err.Error())
		}
		for _, o := range r.Obligations {
			if belongs(o, prop) {
				obls = append(obls, o)
			}
		}
		if r.Unit != nil {
			for k := range r.Unit.usedTrusted {
				pr.assumed[k] = true
			}
			for _, w := range r.Unit.warnings {
				pr.warnings = append(pr.warnings, r.Name+": "+w)
			}
			// contracts this proof relies on must themselves be verified under the same property
			var deps []string
			for k := range r.Unit.usedContracts {
				if !done[k] {
					deps = append(deps, k)
				}
			}
			sort.Strings(deps)
			fns = append(fns, deps...)
		}
	}
	for _, l := range lemmas {
		r := e.VerifyLemma(l)
		pr.units = append(pr.units, r)
		if r.Err != nil {
			pr.errors = append(pr.errors, r.Err.Error())
		}
		for _, o := range r.Obligations {
			if belongs(o, prop) {
				obls = append(obls, o)
			}
		}
	}
	pr.genSecs = time.Since(t0).Seconds()
	out := filepath.Join(opts.Verif, "out", prop)
	os.RemoveAll(out)
	pr.discharged = dischargeAll(opts, out, obls)
	return pr
}

// CmdCheck decides one property.
var nRetries int

func CmdCheck(opts Options, prop string) int {
	t0 := time.Now()
	seed := 0
	if s := os.Getenv("VERIF_SEED"); s != "" {
		seed, _ = strconv.Atoi(s)
	}
	proofCacheDir = filepath.Join(opts.Verif, "out", "cache")
	e, err := Load(opts.Repo, opts.Verif)
	if err != nil {
		// a tree that does not load (e.g. a contract naming a function that no longer exists) loses every proof
		fmt.Fprintln(os.Stderr, "load:", err)
		return reportLoadFailure(opts, prop, err, seed, t0)
	}
	pr := runProperty(e, opts, prop)
	known := loadKnown(opts.Verif)
	ledger := loadLedger(opts.Verif, prop)
	openKnown := map[string]KnownFinding{}
	for _, k := range known {
		if k.Property == prop && k.Status == "open" {
			openKnown[k.Obligation] = k
		}
	}
	inLedger := map[string]bool{}
	if ledger != nil {
		for _, n := range ledger.Proved {
			inLedger[n] = true
		}
	}
	type failure struct {
		d      Discharged
		reason string
	}
	var failures []failure
	var knownHit []KnownFinding
	nObl, nProved := 0, 0
	solverTime := 0.0
	seen := map[string]bool{}
	var coversUndecided []string
	var per []map[string]interface{}
	for _, d := range pr.discharged {
		seen[d.O.Name] = true
		solverTime += d.V.Seconds
		if k, ok := openKnown[d.O.Name]; ok && d.V.Status != "proved" {
			knownHit = append(knownHit, k)
			continue
		}
		if d.O.Cover && d.V.Status == "undecided" {
			// a reachability (vacuity) query the solvers could not answer either way: recorded, not a failure
			coversUndecided = append(coversUndecided, d.O.Name)
			continue
		}
		nObl++
		per = append(per, map[string]interface{}{"name": d.O.Name, "kind": d.O.Kind, "status": d.V.Status, "backend": d.V.Backend, "seconds": round3(d.V.Seconds), "vc_bytes": d.V.Bytes})
		switch d.V.Status {
		case "proved":
			nProved++
		case "refuted":
			failures = append(failures, failure{d, "refuted"})
		case "vacuous":
			failures = append(failures, failure{d, "vacuous: the path or precondition this cover query guards is unreachable"})
		case "conflict":
			fmt.Println("ENGINE-ERROR:", d.O.Name, d.V.Output)
			failures = append(failures, failure{d, d.V.Output})
		default:
			// retry once with the thorough cap before declaring the proof lost
			if opts.Tier != "thorough" && nRetries < 10 {
				// (bounded: on a tree where many proofs are lost the first few retries tell the story)
				nRetries++
				o2 := opts
				o2.Tier = "thorough"
				r := dischargeAll(o2, filepath.Join(opts.Verif, "out", prop), []*Obligation{d.O})
				solverTime += r[0].V.Seconds
				if r[0].V.Status == "proved" {
					nProved++
					per[len(per)-1]["status"] = "proved"
					per[len(per)-1]["backend"] = r[0].V.Backend + " (retry)"
					continue
				}
				d = r[0]
				if d.V.Status == "refuted" {
					failures = append(failures, failure{d, "refuted"})
					continue
				}
			}
			failures = append(failures, failure{d, "undecided: " + d.V.Output})
		}
	}
	// vacuity guard: every contract clause proved on the unchanged tree must still be generated. Only obligations
	// that come from written clauses are compared (post / lemma / invariants / callee preconditions), by name without
	// the occurrence suffix; automatically generated safety and frame obligations depend on the shape of the code and
	// may legitimately come and go with a refactoring.
	clauseKind := func(n string) bool {
		return strings.Contains(n, "/post/") || strings.Contains(n, "/lemma/") || strings.Contains(n, "/inv-init/") || strings.Contains(n, "/inv-pres/")
	}
	base := func(n string) string {
		if i := strings.Index(n, "~"); i >= 0 {
			return n[:i]
		}
		return n
	}
	seenBase := map[string]bool{}
	for n := range seen {
		seenBase[base(n)] = true
	}
	var missing []string
	missDone := map[string]bool{}
	for n := range inLedger {
		if !clauseKind(n) || strings.Contains(n, "auto-backing") {
			continue
		}
		b := base(n)
		if !seenBase[b] && !missDone[b] {
			if _, isKnown := openKnown[n]; !isKnown {
				missDone[b] = true
				missing = append(missing, b)
			}
		}
	}
	sort.Strings(missing)
	rc := 0
	for _, k := range knownHit {
		fmt.Printf("KNOWN-FINDING: property=%s %s: %s\n", prop, k.Obligation, k.What)
	}
	replayDir := filepath.Join(opts.Verif, "out", "replay", prop)
	os.RemoveAll(replayDir)
	os.MkdirAll(replayDir, 0o755)
	violations := 0
	for _, f := range failures {
		violations++
		rc = 1
		path, confirmed := writeReplay(e, opts, prop, replayDir, f.d, f.reason)
		suffix := ""
		if !confirmed {
			suffix = " no-failing-input-found"
		}
		fmt.Printf("VIOLATION property=%s replay=%s obligation=%s%s\n", prop, path, f.d.O.Name, suffix)
	}
	for _, er := range pr.errors {
		violations++
		rc = 1
		path := filepath.Join(replayDir, fmt.Sprintf("unit-error-%d.txt", violations))
		os.WriteFile(path, []byte("property: "+prop+"\nthe function could not be brought under its contract any more (all its proofs are lost):\n"+er+"\n"), 0o644)
		fmt.Printf("VIOLATION property=%s replay=%s obligation=unit-error no-failing-input-found\n", prop, path)
		fmt.Println("  reason:", er)
	}
	if len(missing) > 0 {
		violations++
		rc = 1
		path := filepath.Join(replayDir, "missing-obligations.txt")
		os.WriteFile(path, []byte("property: "+prop+"\nobligations proved on the unchanged tree that are no longer generated:\n"+strings.Join(missing, "\n")+"\n"), 0o644)
		fmt.Printf("VIOLATION property=%s replay=%s obligation=missing-obligations no-failing-input-found\n", prop, path)
	}
	if nObl == 0 && rc == 0 {
		fmt.Println("ENGINE-ERROR: no obligations generated for", prop)
		rc = 2
	}
	pr.coversUndecided = coversUndecided
	writeEvidence(e, opts, prop, pr, per, nObl, nProved, knownHit, violations, solverTime, seed, time.Since(t0).Seconds())
	fmt.Printf("%s: %d obligations, %d proved, %d known findings, %d violations, %.1fs (load+vcgen %.1fs, solver cpu %.1fs)\n",
		prop, nObl, nProved, len(knownHit), violations, time.Since(t0).Seconds(), pr.genSecs, solverTime)
	return rc
}

func round3(f float64) float64 { return float64(int(f*1000+0.5)) / 1000 }

func reportLoadFailure(opts Options, prop string, err error, seed int, t0 time.Time) int {
	replayDir := filepath.Join(opts.Verif, "out", "replay", prop)
	os.MkdirAll(replayDir, 0o755)
	path := filepath.Join(replayDir, "load-error.txt")
	os.WriteFile(path, []byte("property: "+prop+"\nthe repository could not be loaded with its contracts (all proofs are lost):\n"+err.Error()+"\n"), 0o644)
	fmt.Printf("VIOLATION property=%s replay=%s obligation=load-error no-failing-input-found\n", prop, path)
	ev := map[string]interface{}{
		"property_id": prop, "tier": opts.Tier, "seed": seed, "level": "proof",
		"coverage": map[string]interface{}{"obligations": 1, "discharged": 0, "checker_cmd": "govc check " + prop, "trusted_base": []string{},
			"samples": []string{"load error: " + err.Error()}},
		"wall_s": time.Since(t0).Seconds(), "violations": 1,
	}
	writeJSON(filepath.Join(opts.Verif, "evidence", prop+".json"), ev)
	return 1
}

func writeJSON(path string, v interface{}) {
	os.MkdirAll(filepath.Dir(path), 0o755)
	data, _ := json.MarshalIndent(v, "", " ")
	os.WriteFile(path, append(data, '\n'), 0o644)
}

func writeEvidence(e *Engine, opts Options, prop string, pr *propRun, per []map[string]interface{}, nObl, nProved int, knownHit []KnownFinding, violations int, solverTime float64, seed int, wall float64) {
	var fns []map[string]string
	for _, r := range pr.units {
		m := map[string]string{"function": r.Name, "source_sha256_16": r.Fingerprint}
		if r.Trusted {
			m["status"] = "trusted (contract assumed, body not checked)"
		} else if r.Err != nil {
			m["status"] = "error: " + r.Err.Error()
		} else {
			m["status"] = "verified against its contract"
		}
		fns = append(fns, m)
	}
	var trusted []string
	for k := range pr.assumed {
		trusted = append(trusted, k)
	}
	for k := range pr.trusted {
		trusted = append(trusted, "trusted repository function: "+k)
	}
	sort.Strings(trusted)
	var samples []map[string]string
	for _, d := range pr.discharged {
		if len(samples) >= 4 {
			break
		}
		if d.O.Kind == "post" || d.O.Kind == "lemma" || d.O.Kind == "inv-pres" {
			samples = append(samples, map[string]string{"obligation": d.O.Name, "source_terms": d.O.Src, "status": d.V.Status, "backend": d.V.Backend})
		}
	}
	if len(samples) == 0 {
		for _, d := range pr.discharged {
			if len(samples) >= 2 {
				break
			}
			samples = append(samples, map[string]string{"obligation": d.O.Name, "source_terms": d.O.Src, "status": d.V.Status})
		}
	}
	var kf []string
	for _, k := range knownHit {
		kf = append(kf, k.Obligation+": "+k.What)
	}
	backends := map[string]int{}
	for _, p := range per {
		if p["status"] == "proved" {
			backends[fmt.Sprint(p["backend"])]++
		}
	}
	assumptions := []string{
		"go/packages+go/types+go/ssa (x/tools v0.29.0) produce SSA faithful to the compiler; the engine's encoding of SSA into SMT (DESIGN.md 2.3)",
		"soundness of z3 4.8.12, z3 5.1.0 (z3-new) and cvc5 1.0 (raced; a sat/unsat disagreement is reported as an engine error)",
		"machine integers are treated as mathematical integers constrained to their type's range at every read; overflow of + - * is not checked unless a unit declares 'arith wrap'",
		"time.Time / metav1.Time are integer nanoseconds without saturation; the zero time is 0",
		"strings are an uninterpreted sort with distinct literals (no string theory); string order only where compared",
		"goroutines, channels and sync primitives are not modelled (functions using them are 'trusted' or reported unsupported)",
		"termination is not verified unless a loop has a 'decreases' clause",
	}
	for _, w := range pr.warnings {
		assumptions = append(assumptions, "engine warning: "+w)
	}
	ev := map[string]interface{}{
		"property_id": prop, "tier": opts.Tier, "seed": seed, "level": "proof",
		"coverage": map[string]interface{}{
			"obligations": nObl, "discharged": nProved,
			"checker_cmd":              "/verif/bin/govc check " + prop + " --tier " + opts.Tier,
			"trusted_base":             trusted,
			"samples":                  samples,
			"functions_under_contract": fns,
			"per_obligation":           per,
			"bounded":                  0,
			"backends":                 backends,
			"solver_time_s":            round3(solverTime),
			"vcgen_time_s":             round3(pr.genSecs),
			"known_finding_obligations": kf,
			"vacuity_covers_undecided":  pr.coversUndecided,
			"explanation":              "every obligation is a verification condition generated from the go/ssa form of /repo's current working tree and the //@ contracts in its zz_verif_contracts.go files, discharged by an SMT solver (unsat = proved)",
		},
		"assumptions": assumptions,
		"wall_s":      round3(wall),
		"violations":  violations,
	}
	writeJSON(filepath.Join(opts.Verif, "evidence", prop+".json"), ev)
}

// writeReplay produces the replay artefact for a failed obligation. Returns path and whether a failing input
// was confirmed against the real code.
func writeReplay(e *Engine, opts Options, prop, dir string, d Discharged, reason string) (string, bool) {
	base := filepath.Join(dir, fileSafe(d.O.Name))
	if (d.V.Status == "refuted" || d.V.Status == "undecided") && d.O.Unit.fn != nil {
		if path, ok := e.replayObligation(opts, prop, base, d); ok {
			return path, true
		} else if path != "" {
			return path, false
		}
	}
	path := base + ".txt"
	var b strings.Builder
	fmt.Fprintf(&b, "property: %s\nobligation: %s\nkind: %s\nclause: %s\nposition: %s\nverdict: %s\nreason: %s\nsolver output:\n%s\nSMT file: %s\n", prop, d.O.Name, d.O.Kind, d.O.Src, d.O.Pos, d.V.Status, reason, d.V.Output, d.V.File)
	os.WriteFile(path, []byte(b.String()), 0o644)
	return path, false
}

// CmdLedger rewrites the baseline ledger from the current tree (explicit maintenance action only).
func CmdLedger(opts Options, update bool, props []string) int {
	if !update {
		fmt.Println("ledger: nothing to do without --update")
		return 0
	}
	e, err := Load(opts.Repo, opts.Verif)
	if err != nil {
		fmt.Fprintln(os.Stderr, "load:", err)
		return 2
	}
	for _, prop := range props {
		pr := runProperty(e, opts, prop)
		l := Ledger{Property: prop, Fingerprint: map[string]string{}}
		for _, d := range pr.discharged {
			if d.V.Status == "proved" {
				l.Proved = append(l.Proved, d.O.Name)
			} else {
				fmt.Printf("ledger %s: NOT proved: %s (%s)\n", prop, d.O.Name, d.V.Status)
			}
		}
		sort.Strings(l.Proved)
		for _, r := range pr.units {
			l.Fingerprint[r.Name] = r.Fingerprint
		}
		for _, er := range pr.errors {
			fmt.Printf("ledger %s: unit error: %s\n", prop, er)
		}
		writeJSON(filepath.Join(opts.Verif, "ledger", prop+".json"), l)
		fmt.Printf("ledger %s: %d proved obligations\n", prop, len(l.Proved))
	}
	return 0
}

func CmdReplay(opts Options, file string) int {
	return replayFile(opts, file)
}

func CmdSelfcheck(opts Options) int { return selfcheck(opts) }
