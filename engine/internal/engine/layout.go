package engine

import (
	"fmt"
	"os"
	"go/types"
	"math/big"
	"strings"
)

// SV is a symbolic Go value: a leaf SMT term, or a tuple/struct/array of SVs.
type SV struct {
	T *Term
	F []*SV
}

func leaf(t *Term) *SV { return &SV{T: t} }

func (v *SV) String() string {
	if v == nil {
		return "<nil>"
	}
	if v.T != nil {
		return v.T.String()
	}
	var parts []string
	for _, f := range v.F {
		parts = append(parts, f.String())
	}
	return "{" + strings.Join(parts, ", ") + "}"
}

// leaves flattens v in field order.
func (v *SV) leaves(out []*Term) []*Term {
	if v.T != nil {
		return append(out, v.T)
	}
	for _, f := range v.F {
		out = f.leaves(out)
	}
	return out
}

// opaque struct types modelled as one uninterpreted-sort leaf.
var opaqueTypes = map[string]string{
	"k8s.io/apimachinery/pkg/api/resource.Quantity": "OpqQuantity",
	"github.com/go-logr/logr.Logger":                "OpqLogger",
	"sync.WaitGroup":                                "OpqWaitGroup",
	"sync.Mutex":                                    "OpqMutex",
	"sync.RWMutex":                                  "OpqRWMutex",
	"k8s.io/apimachinery/pkg/runtime.RawExtension":  "OpqRawExt",
	"k8s.io/apimachinery/pkg/types.NamespacedName":  "",
}

type fieldInfo struct {
	Struct string
	Name   string
	Index  int
}

type Layouts struct {
	fieldIDs  map[string]int // key: struct type string + "#" + index
	fieldTab  []fieldInfo
	structKey map[*types.Struct]string
}

func newLayouts() *Layouts {
	return &Layouts{fieldIDs: map[string]int{}, structKey: map[*types.Struct]string{}}
}

func typeName(t types.Type) string {
	if t == nil {
		return ""
	}
	t = types.Unalias(t)
	if n, ok := t.(*types.Named); ok {
		obj := n.Obj()
		if obj.Pkg() != nil {
			return obj.Pkg().Path() + "." + obj.Name()
		}
		return obj.Name()
	}
	return t.String()
}

func isTimeType(t types.Type) bool { return typeName(t) == "time.Time" }

func opaqueSortName(t types.Type) (string, bool) {
	n := typeName(t)
	if s, ok := opaqueTypes[n]; ok && s != "" {
		return s, true
	}
	return "", false
}

// fieldID returns the global id of field i of struct type t (named type identity preferred).
func (l *Layouts) fieldID(named types.Type, st *types.Struct, i int) int {
	key, ok := l.structKey[st]
	if !ok {
		key = typeName(named)
		if _, isNamed := types.Unalias(named).(*types.Named); !isNamed {
			key = st.String()
		}
		l.structKey[st] = key
	}
	k := fmt.Sprintf("%s#%d", key, i)
	if id, ok := l.fieldIDs[k]; ok {
		return id
	}
	id := len(l.fieldTab) + 1
	l.fieldIDs[k] = id
	l.fieldTab = append(l.fieldTab, fieldInfo{Struct: key, Name: st.Field(i).Name(), Index: i})
	return id
}

// leafSort returns the SMT sort for a leaf type, or nil if t is composite (struct/array/tuple).
func (u *Unit) leafSort(t types.Type) *Sort {
	if isTimeType(t) {
		return SInt
	}
	if s, ok := opaqueSortName(t); ok {
		return u.c.DeclareSort(s)
	}
	switch tt := t.Underlying().(type) {
	case *types.Basic:
		info := tt.Info()
		switch {
		case info&types.IsBoolean != 0:
			return SBool
		case info&types.IsInteger != 0:
			return SInt
		case info&types.IsFloat != 0:
			return SReal
		case info&types.IsString != 0:
			return SStr
		case tt.Kind() == types.UnsafePointer:
			return SRef
		case tt.Kind() == types.UntypedNil:
			return SRef
		case info&types.IsComplex != 0:
			return u.c.DeclareSort("OpqComplex")
		}
		return SInt
	case *types.Pointer, *types.Map, *types.Chan, *types.Signature, *types.Interface:
		return SRef
	case *types.Slice:
		return SSlice
	case *types.Struct:
		return nil
	case *types.Array:
		return nil
	case *types.Tuple:
		return nil
	case *types.TypeParam:
		return SRef
	}
	panic(fmt.Sprintf("leafSort: unhandled type %s (%T)", t, t.Underlying()))
}

func intRange(t types.Type) (lo, hi *big.Int, ok bool) {
	if isTimeType(t) {
		return nil, nil, false
	}
	b, isBasic := t.Underlying().(*types.Basic)
	if !isBasic || b.Info()&types.IsInteger == 0 {
		return nil, nil, false
	}
	pow := func(n uint) *big.Int { return new(big.Int).Lsh(big.NewInt(1), n) }
	sgn := func(bits uint) (*big.Int, *big.Int, bool) {
		return new(big.Int).Neg(pow(bits - 1)), new(big.Int).Sub(pow(bits-1), big.NewInt(1)), true
	}
	uns := func(bits uint) (*big.Int, *big.Int, bool) {
		return big.NewInt(0), new(big.Int).Sub(pow(bits), big.NewInt(1)), true
	}
	switch b.Kind() {
	case types.Int, types.Int64, types.UntypedInt:
		return sgn(64)
	case types.Int32, types.UntypedRune:
		return sgn(32)
	case types.Int16:
		return sgn(16)
	case types.Int8:
		return sgn(8)
	case types.Uint, types.Uint64, types.Uintptr:
		return uns(64)
	case types.Uint32:
		return uns(32)
	case types.Uint16:
		return uns(16)
	case types.Uint8:
		return uns(8)
	}
	return nil, nil, false
}

// zero value
func (u *Unit) zeroSV(t types.Type) *SV {
	if s := u.leafSort(t); s != nil {
		return leaf(u.zeroLeaf(s))
	}
	switch tt := t.Underlying().(type) {
	case *types.Struct:
		v := &SV{}
		for i := 0; i < tt.NumFields(); i++ {
			v.F = append(v.F, u.zeroSV(tt.Field(i).Type()))
		}
		if len(v.F) == 0 {
			v.F = []*SV{}
		}
		return v
	case *types.Array:
		if tt.Len() > 64 {
			panic(unsupported("array too large"))
		}
		v := &SV{}
		for i := int64(0); i < tt.Len(); i++ {
			v.F = append(v.F, u.zeroSV(tt.Elem()))
		}
		return v
	case *types.Tuple:
		v := &SV{}
		for i := 0; i < tt.Len(); i++ {
			v.F = append(v.F, u.zeroSV(tt.At(i).Type()))
		}
		return v
	}
	panic("zeroSV: " + t.String())
}

func (u *Unit) zeroLeaf(s *Sort) *Term {
	c := u.c
	switch s {
	case SInt:
		return c.Int(0)
	case SBool:
		return c.False()
	case SReal:
		return c.Real("0.0")
	case SStr:
		return c.Str("")
	case SRef:
		return c.Nil()
	case SSlice:
		return c.NilSlice()
	}
	return c.Const("zero_"+s.Name, s)
}

// freshSV creates unconstrained symbols of the right shape, with type invariants assumed under guard.
func (u *Unit) freshSV(hint string, t types.Type, st *State, guard *Term) *SV {
	if s := u.leafSort(t); s != nil {
		x := u.c.Fresh(hint, s)
		u.assumeTypeInv(x, t, st, guard)
		return leaf(x)
	}
	switch tt := t.Underlying().(type) {
	case *types.Struct:
		v := &SV{F: []*SV{}}
		for i := 0; i < tt.NumFields(); i++ {
			v.F = append(v.F, u.freshSV(hint+"."+tt.Field(i).Name(), tt.Field(i).Type(), st, guard))
		}
		return v
	case *types.Array:
		if tt.Len() > 64 {
			panic(unsupported("array too large"))
		}
		v := &SV{F: []*SV{}}
		for i := int64(0); i < tt.Len(); i++ {
			v.F = append(v.F, u.freshSV(fmt.Sprintf("%s.%d", hint, i), tt.Elem(), st, guard))
		}
		return v
	case *types.Tuple:
		v := &SV{F: []*SV{}}
		for i := 0; i < tt.Len(); i++ {
			v.F = append(v.F, u.freshSV(fmt.Sprintf("%s#%d", hint, i), tt.At(i).Type(), st, guard))
		}
		return v
	}
	panic("freshSV: " + t.String())
}

// assumeTypeInv adds the invariants every well-typed Go value satisfies.
func (u *Unit) assumeTypeInv(x *Term, t types.Type, st *State, guard *Term) {
	c := u.c
	if x.Op == "int" || x.Op == "bool" || x.Op == "strlit" || x.Op == "ctor" && x.Sort == SRef && len(x.Args) == 2 && x.Args[0].Op == "int" {
		return
	}
	bound := st.alloc
	if x.Op == "select" && x.Args[0].Op == "const" && strings.HasPrefix(x.Args[0].Name, "H0_") && x.Args[1].Sort == SRef && u.c.oldRoot[u.c.Root(x.Args[1]).id] {
		// read from the untouched entry heap at a location of an object that existed at entry: everything stored
		// there existed before the call. (Locations of objects allocated later are uninitialised in H0 and hold
		// whatever the allocation puts there, so nothing may be assumed about them.)
		bound = u.alloc0
	}
	key := fmt.Sprintf("%d|%d", x.id, bound.id)
	if u.invDone[key] {
		return
	}
	u.invDone[key] = true
	defer func() {
		// registered after the assumption itself has been emitted (the simplifier must not swallow it)
		if bound == u.alloc0 && !x.open {
			switch x.Sort {
			case SRef:
				c.oldRoot[c.Root(x).id] = true
			case SSlice:
				c.oldRoot[c.Root(c.SArr(x)).id] = true
			}
		}
	}()
	switch x.Sort {
	case SInt:
		if lo, hi, ok := intRange(t); ok {
			u.assume(guard, c.And(c.Le(c.BigInt(lo), x), c.Le(x, c.BigInt(hi))))
		}
	case SRef:
		// nil or a live object
		u.assume(guard, c.Or(c.Eq(x, c.Nil()), c.And(c.Le(c.Int(1), c.Root(x)), c.Lt(c.Root(x), bound))))
		if pt, ok := t.Underlying().(*types.Pointer); ok {
			u.ptrFacts = append(u.ptrFacts, ptrFact{x, pt.Elem(), guard, len(u.assumptions)})
			if !x.open {
				c.rootTag[c.Root(x).id] = rootTagT{slice: false, t: pt.Elem()}
			}
		}
	case SSlice:
		if stt, ok := t.Underlying().(*types.Slice); ok {
			if !x.open {
				c.rootTag[c.Root(c.SArr(x)).id] = rootTagT{slice: true, t: stt.Elem()}
			}
			// backing arrays are allocations of their own, typed by their element type
			u.assume(guard, c.Or(c.Eq(c.SArr(x), c.Nil()), c.And(c.Eq(u.rootType(c.Root(c.SArr(x))), u.arrTypeID(stt.Elem())), c.Eq(c.PathOf(c.SArr(x)), c.PNil()))))
		}
		arr := c.SArr(x)
		u.assume(guard, c.And(
			c.Le(c.Int(0), c.SOff(x)), c.Le(c.Int(0), c.SLen(x)), c.Le(c.SLen(x), c.SCap(x)),
			c.Or(c.And(c.Eq(arr, c.Nil()), c.Eq(c.SCap(x), c.Int(0)), c.Eq(c.SOff(x), c.Int(0))),
				c.And(c.Le(c.Int(1), c.Root(arr)), c.Lt(c.Root(arr), bound)))))
	case SStr:
		u.assume(guard, c.Le(c.Int(0), u.strLen(x)))
	}
}

func (u *Unit) strLen(s *Term) *Term {
	c := u.c
	if s.Op == "strlit" {
		return c.Int(int64(len(s.Name)))
	}
	f := c.Func("str_len", []*Sort{SStr}, SInt)
	return c.App(f, s)
}

// heap array name for a leaf sort
func heapKey(s *Sort) string { return "H:" + s.Name }

// load reads a value of type t at address addr.
func (u *Unit) load(st *State, addr *Term, t types.Type, guard *Term) *SV {
	if s := u.leafSort(t); s != nil {
		x := u.readThrough(u.heapArr(st, s), addr, guard)
		u.assumeTypeInv(x, t, st, guard)
		u.regionFacts(addr, s)
		return leaf(x)
	}
	switch tt := t.Underlying().(type) {
	case *types.Struct:
		v := &SV{F: []*SV{}}
		for i := 0; i < tt.NumFields(); i++ {
			v.F = append(v.F, u.load(st, u.c.Fld(addr, u.e.lay.fieldID(t, tt, i)), tt.Field(i).Type(), guard))
		}
		return v
	case *types.Array:
		if tt.Len() > 64 {
			panic(unsupported("array too large"))
		}
		v := &SV{F: []*SV{}}
		for i := int64(0); i < tt.Len(); i++ {
			v.F = append(v.F, u.load(st, u.c.Elm(addr, u.c.Int(i)), tt.Elem(), guard))
		}
		return v
	}
	panic("load: " + t.String())
}

// leafAddrs enumerates (address, sort) of every leaf of a value of type t at addr.
func (u *Unit) leafAddrs(addr *Term, t types.Type, out *[]leafLoc) {
	if s := u.leafSort(t); s != nil {
		*out = append(*out, leafLoc{addr, s, nil})
		return
	}
	switch tt := t.Underlying().(type) {
	case *types.Struct:
		for i := 0; i < tt.NumFields(); i++ {
			u.leafAddrs(u.c.Fld(addr, u.e.lay.fieldID(t, tt, i)), tt.Field(i).Type(), out)
		}
	case *types.Array:
		for i := int64(0); i < tt.Len() && i < 64; i++ {
			u.leafAddrs(u.c.Elm(addr, u.c.Int(i)), tt.Elem(), out)
		}
	}
}

type leafLoc struct {
	Addr *Term
	Sort *Sort
	Cond *Term // location exists only under this condition (nil = always)
}

// store writes v (of type t) at addr (no frame check here).
func (u *Unit) store(st *State, addr *Term, t types.Type, v *SV) {
	if s := u.leafSort(t); s != nil {
		if v.T == nil {
			panic("store: composite value for leaf type " + t.String())
		}
		val := v.T
		if val.Sort != s {
			panic(fmt.Sprintf("store: sort mismatch %s vs %s for %s", val.Sort.Name, s.Name, t))
		}
		st.heap[heapKey(s)] = u.c.Store(u.heapArr(st, s), addr, val)
		return
	}
	switch tt := t.Underlying().(type) {
	case *types.Struct:
		for i := 0; i < tt.NumFields(); i++ {
			u.store(st, u.c.Fld(addr, u.e.lay.fieldID(t, tt, i)), tt.Field(i).Type(), v.F[i])
		}
		return
	case *types.Array:
		for i := int64(0); i < tt.Len(); i++ {
			u.store(st, u.c.Elm(addr, u.c.Int(i)), tt.Elem(), v.F[i])
		}
		return
	}
	panic("store: " + t.String())
}

// eqSV is structural equality of two values of the same type.
func (u *Unit) eqSV(a, b *SV) *Term {
	if a.T != nil {
		return u.c.Eq(a.T, b.T)
	}
	var parts []*Term
	for i := range a.F {
		parts = append(parts, u.eqSV(a.F[i], b.F[i]))
	}
	return u.c.And(parts...)
}

func (u *Unit) iteSV(g *Term, a, b *SV) *SV {
	if a == b {
		return a
	}
	if a.T != nil {
		return leaf(u.c.Ite(g, a.T, b.T))
	}
	v := &SV{F: []*SV{}}
	for i := range a.F {
		v.F = append(v.F, u.iteSV(g, a.F[i], b.F[i]))
	}
	return v
}

type unsupportedErr struct{ msg string }

func (e unsupportedErr) Error() string { return "unsupported: " + e.msg }
func unsupported(format string, args ...interface{}) unsupportedErr {
	return unsupportedErr{fmt.Sprintf(format, args...)}
}

func (u *Unit) rootType(root *Term) *Term {
	f := u.c.Func("roottype", []*Sort{SInt}, SInt)
	return u.c.App(f, root)
}

func (u *Unit) arrTypeID(elem types.Type) *Term {
	id := u.typeID(types.NewSlice(elem))
	iv, _ := id.IntVal()
	k := int(iv.Int64())
	if u.elemTypes == nil {
		u.elemTypes = map[int]types.Type{}
	}
	if _, ok := u.elemTypes[k]; !ok {
		u.elemTypes[k] = elem
		u.elemOrder = append(u.elemOrder, k)
	}
	return id
}

// embeddable: can a value of type t live inside a value of type outer without crossing a pointer/slice/map?
func embeddable(t, outer types.Type, depth int) bool {
	if types.Identical(t, outer) {
		return true
	}
	if depth > 12 {
		return true
	}
	switch o := outer.Underlying().(type) {
	case *types.Struct:
		for i := 0; i < o.NumFields(); i++ {
			if embeddable(t, o.Field(i).Type(), depth+1) {
				return true
			}
		}
	case *types.Array:
		return embeddable(t, o.Elem(), depth+1)
	}
	return false
}

// aliasFacts: a *T cannot point into a backing array whose element type cannot contain a T.
func (u *Unit) aliasFacts(nAssume int) []*Term { return u.aliasFactsFor(u.ptrFacts, nAssume) }

func (u *Unit) aliasFactsFor(pfs []ptrFact, nAssume int) []*Term {
	c := u.c
	var out []*Term
	memo := map[string]bool{}
	for _, pf := range pfs {
		if pf.at > nAssume || pf.x.open {
			continue
		}
		for _, k := range u.elemOrder {
			et := u.elemTypes[k]
			key := pf.elem.String() + "|" + et.String()
			emb, ok := memo[key]
			if !ok {
				emb = embeddable(pf.elem, et, 0)
				memo[key] = emb
			}
			if emb {
				continue
			}
			f := c.Or(c.Eq(pf.x, c.Nil()), c.Neq(u.rootType(c.Root(pf.x)), c.Int(int64(k))))
			if pf.guard != nil {
				f = c.Implies(pf.guard, f)
			}
			out = append(out, f)
		}
	}
	return out
}

type rootTagT struct {
	slice bool
	t     types.Type
}

// rootsIncompatible: a pointer to T cannot point into the backing array of a []A when A cannot contain a T; two
// backing arrays of different element types are different objects. (Both being nil is the one case where the roots
// coincide; frame conditions may ignore it because nothing is ever written through nil.)
func rootsIncompatible(a, b interface{}) bool {
	x, y := a.(rootTagT), b.(rootTagT)
	switch {
	case x.slice && y.slice:
		return !types.Identical(x.t, y.t)
	case x.slice && !y.slice:
		return !embeddable(y.t, x.t, 0)
	case !x.slice && y.slice:
		return !embeddable(x.t, y.t, 0)
	}
	return false
}

// readThrough reads arr[addr], skipping havoc / append arrays whose frame condition holds syntactically for addr
// (under a guard that the current path condition contains).
func (u *Unit) readThrough(arr, addr, pc *Term) *Term {
	c := u.c
	if addr.open {
		return c.Select(arr, addr)
	}
	for depth := 0; depth < 200; depth++ {
		// peel stores at syntactically different addresses (Select does this too, but we need to continue below)
		for arr.Op == "store" {
			e := c.Eq(arr.Args[1], addr)
			if e.IsFalse() {
				arr = arr.Args[0]
				continue
			}
			break
		}
		if arr.Op == "ite" {
			return c.Ite(arr.Args[0], u.readThrough(arr.Args[1], addr, pc), u.readThrough(arr.Args[2], addr, pc))
		}
		if arr.Op != "const" {
			break
		}
		fas := u.frameAx[arr.id]
		moved := false
		for _, fa := range fas {
			if !guardImplied(pc, fa.guard) {
				continue
			}
			cond := c.Subst(fa.cond, map[*Term]*Term{fa.bv: addr})
			if cond.IsTrue() {
				arr = fa.prev
				moved = true
				break
			}
			if os.Getenv("GOVC_DEBUG") == "3" && strings.Contains(arr.Name, "Hh2_H_Slice") {
				fmt.Fprintf(os.Stderr, "readThrough stuck at %s addr=%s cond=%s\n", arr.Name, trunc(addr.String(), 120), trunc(cond.String(), 400))
			}
		}
		if !moved {
			break
		}
	}
	return c.Select(arr, addr)
}

// guardImplied: every conjunct of g occurs among the conjuncts of pc.
func guardImplied(pc, g *Term) bool {
	if g == nil || g.IsTrue() {
		return true
	}
	if pc == nil {
		return false
	}
	have := map[int]bool{}
	for _, x := range conj(pc) {
		have[x.id] = true
	}
	for _, x := range conj(g) {
		if !have[x.id] {
			return false
		}
	}
	return true
}
