package engine

import "strings"

// Relevance filtering (cone of influence): an assumption is kept if it talks about a term the goal (or an already
// kept assumption) talks about. Dropping assumptions is always sound: the VC only becomes harder to prove.

type atomSet struct {
	terms map[int]bool
	syms  map[string]bool
}

func collectAtoms(t *Term, as *atomSet, seen map[int]bool) {
	if seen[t.id] {
		return
	}
	seen[t.id] = true
	switch t.Op {
	case "select":
		if !t.open {
			as.terms[t.id] = true
		}
	case "app":
		if !t.open {
			as.terms[t.id] = true
		}
		as.syms[t.Name] = true
	case "const":
		if t.Sort.IsArray() {
			as.syms[t.Name] = true
		} else if !strings.HasPrefix(t.Name, "alloc") {
			as.terms[t.id] = true
		}
	}
	for _, a := range t.Args {
		collectAtoms(a, as, seen)
	}
	for _, ps := range t.Pats {
		for _, a := range ps {
			collectAtoms(a, as, seen)
		}
	}
}

func atomsOf(t *Term) *atomSet {
	as := &atomSet{terms: map[int]bool{}, syms: map[string]bool{}}
	collectAtoms(t, as, map[int]bool{})
	return as
}

func filterRelevant(goal []*Term, assumptions []*Term) []*Term {
	if len(assumptions) < 40 {
		return assumptions
	}
	R := &atomSet{terms: map[int]bool{}, syms: map[string]bool{}}
	seenR := map[int]bool{}
	for _, g := range goal {
		collectAtoms(g, R, seenR)
	}
	type entry struct {
		a     *Term
		test  *atomSet
		quant bool
		kept  bool
	}
	es := make([]*entry, len(assumptions))
	for i, a := range assumptions {
		e := &entry{a: a, quant: hasQuant(a)}
		body := a
		if a.Op == "=>" && !e.quant {
			body = a.Args[1]
		}
		e.test = atomsOf(body)
		es[i] = e
	}
	changed := true
	for changed {
		changed = false
		for _, e := range es {
			if e.kept {
				continue
			}
			hit := false
			if len(e.test.terms) == 0 && len(e.test.syms) == 0 {
				hit = true
			}
			if !hit && e.quant {
				for s := range e.test.syms {
					if R.syms[s] {
						hit = true
						break
					}
				}
			}
			if !hit && !e.quant {
				for id := range e.test.terms {
					if R.terms[id] {
						hit = true
						break
					}
				}
			}
			if !hit && !e.quant && e.test.syms["roottype"] && R.syms["roottype"] {
				hit = true
			}
			if hit {
				e.kept = true
				changed = true
				collectAtoms(e.a, R, seenR)
			}
		}
	}
	var out []*Term
	for _, e := range es {
		if e.kept {
			out = append(out, e.a)
		}
	}
	return out
}
