package engine

import (
	"fmt"
	"os"
	"path/filepath"
	"sort"
	"strings"
)

// selfcheck runs the engine on its own corpus (testdata/corpus): clauses labelled ok_* must be proved, clauses
// labelled bad_* must NOT be proved, functions named *Unsafe / *WrongFrame must have an unproved safety / frame
// obligation and all other functions none. A broken engine is caught here before any property is judged.
func selfcheck(opts Options) int {
	dir := filepath.Join(opts.Verif, "engine", "testdata", "corpus")
	e, err := LoadPatterns(dir, filepath.Join(opts.Verif, "engine", "testdata", "none"), []string{"./..."}, []string{"GOFLAGS=-mod=mod", "GOWORK=off"})
	if err != nil {
		fmt.Fprintln(os.Stderr, "selfcheck: load:", err)
		return 2
	}
	var names []string
	for n, c := range e.contracts {
		if !c.External {
			names = append(names, n)
		}
	}
	sort.Strings(names)
	o2 := opts
	o2.Tier = "quick"
	os.Setenv("GOVC_TIMEOUT", "10")
	defer os.Unsetenv("GOVC_TIMEOUT")
	bad := 0
	total := 0
	for _, n := range names {
		r := e.VerifyFunction(n)
		if r.Err != nil {
			fmt.Println("selfcheck: unit error:", r.Err)
			bad++
			continue
		}
		ds := dischargeAll(o2, filepath.Join(opts.Verif, "out", "selfcheck"), r.Obligations)
		unsafeFn := strings.HasSuffix(r.Name, "Unsafe") || strings.HasSuffix(r.Name, "WrongFrame")
		safetyFailed := false
		for _, d := range ds {
			total++
			proved := d.V.Status == "proved"
			label := d.O.Name[strings.LastIndex(d.O.Name, "/")+1:]
			switch {
			case strings.HasPrefix(label, "ok_"):
				if !proved {
					fmt.Printf("selfcheck: FAIL %s should be proved, is %s\n", d.O.Name, d.V.Status)
					bad++
				}
			case strings.HasPrefix(label, "bad_"):
				if proved {
					fmt.Printf("selfcheck: FAIL %s must not be provable\n", d.O.Name)
					bad++
				}
			case d.O.Cover:
				if d.V.Status == "vacuous" {
					fmt.Printf("selfcheck: FAIL %s is vacuous\n", d.O.Name)
					bad++
				}
			default:
				if !proved {
					safetyFailed = true
					if !unsafeFn {
						fmt.Printf("selfcheck: FAIL %s (%s) should be proved, is %s\n", d.O.Name, d.O.Kind, d.V.Status)
						bad++
					}
				}
			}
		}
		if unsafeFn && !safetyFailed {
			fmt.Printf("selfcheck: FAIL %s: an unsafe function verified without complaint\n", r.Name)
			bad++
		}
	}
	fmt.Printf("selfcheck: %d obligations over %d corpus functions, %d unexpected outcomes\n", total, len(names), bad)
	if bad > 0 || total == 0 {
		return 1
	}
	return 0
}
