package engine

// Skolemisation of the negated goal and instantiation of quantified hypotheses on the skolem constants.
// Both only add logical consequences / equivalent forms, so soundness is unaffected; they make most obligations
// with quantified invariants decidable by ground reasoning.

// negSkolem returns a formula equisatisfiable with (not p), with outer universal quantifiers of p replaced by
// fresh constants (collected in sk).
func (u *Unit) negSkolem(p *Term, sk *[]*Term) *Term {
	c := u.c
	switch {
	case p.Op == "forall":
		m := map[*Term]*Term{}
		for _, b := range p.Bound {
			k := c.Fresh("sk_"+b.Name, b.Sort)
			m[b] = k
			*sk = append(*sk, k)
		}
		u.substMaps = append(u.substMaps, m)
		return u.negSkolem(c.Subst(p.Args[0], m), sk)
	case p.Op == "and":
		var parts []*Term
		for _, a := range p.Args {
			parts = append(parts, u.negSkolem(a, sk))
		}
		return c.Or(parts...)
	case p.Op == "=>":
		return c.And(p.Args[0], u.negSkolem(p.Args[1], sk))
	case p.Op == "ite" && p.Sort == SBool:
		return c.Ite(p.Args[0], u.negSkolem(p.Args[1], sk), u.negSkolem(p.Args[2], sk))
	}
	return c.Not(p)
}

// instantiate produces instances of the universally quantified hypotheses on the given constants.
func (u *Unit) instantiate(hyps []*Term, consts []*Term) []*Term {
	if len(consts) == 0 {
		return nil
	}
	c := u.c
	bySort := map[*Sort][]*Term{}
	for _, k := range consts {
		bySort[k.Sort] = append(bySort[k.Sort], k)
	}
	var out []*Term
	var inst func(guard *Term, q *Term)
	inst = func(guard *Term, q *Term) {
		switch {
		case q.Op == "forall":
			// all combinations, bounded
			combos := []map[*Term]*Term{{}}
			for _, b := range q.Bound {
				cands := bySort[b.Sort]
				if len(cands) == 0 {
					return
				}
				var next []map[*Term]*Term
				for _, m := range combos {
					for _, k := range cands {
						n := map[*Term]*Term{}
						for x, y := range m {
							n[x] = y
						}
						n[b] = k
						next = append(next, n)
					}
				}
				combos = next
				if len(combos) > 16 {
					combos = combos[:16]
				}
			}
			for _, m := range combos {
				u.substMaps = append(u.substMaps, m)
				body := c.Subst(q.Args[0], m)
				if guard != nil {
					body = c.Implies(guard, body)
				}
				if !body.IsTrue() && !body.open {
					out = append(out, body)
				}
			}
		case q.Op == "=>" && hasQuant(q.Args[1]) && !hasQuant(q.Args[0]):
			g := q.Args[0]
			if guard != nil {
				g = c.And(guard, g)
			}
			inst(g, q.Args[1])
		case q.Op == "and":
			for _, a := range q.Args {
				if hasQuant(a) {
					inst(guard, a)
				}
			}
		}
	}
	for _, h := range hyps {
		if hasQuant(h) {
			inst(nil, h)
		}
	}
	return out
}

func freeVars(t *Term, out map[*Term]bool, seen map[int]bool, bound map[*Term]bool) {
	if !t.open {
		return
	}
	if t.isVar {
		if !bound[t] {
			out[t] = true
		}
		return
	}
	if len(t.Bound) > 0 {
		nb := map[*Term]bool{}
		for k := range bound {
			nb[k] = true
		}
		for _, b := range t.Bound {
			nb[b] = true
		}
		freeVars(t.Args[0], out, map[int]bool{}, nb)
		return
	}
	if seen[t.id] {
		return
	}
	seen[t.id] = true
	for _, a := range t.Args {
		freeVars(a, out, seen, bound)
	}
}

// instOpenFacts instantiates the recorded facts about bound variables (type invariants of values read under a
// quantifier) with the substitutions used for skolemisation and instantiation.
func (u *Unit) instOpenFacts(nAssume int) (facts []*Term, ptrs []ptrFact) {
	c := u.c
	if len(u.substMaps) == 0 {
		return nil, nil
	}
	type ofv struct {
		vars map[*Term]bool
	}
	cache := map[int]map[*Term]bool{}
	varsOf := func(i int, f openFact) map[*Term]bool {
		if v, ok := cache[i]; ok {
			return v
		}
		v := map[*Term]bool{}
		freeVars(f.fact, v, map[int]bool{}, map[*Term]bool{})
		if f.guard != nil {
			freeVars(f.guard, v, map[int]bool{}, map[*Term]bool{})
		}
		cache[i] = v
		return v
	}
	covered := func(vars map[*Term]bool, m map[*Term]*Term) bool {
		if len(vars) == 0 {
			return false
		}
		for v := range vars {
			if _, ok := m[v]; !ok {
				return false
			}
		}
		return true
	}
	done := map[int]bool{}
	for _, m := range u.substMaps {
		for i, f := range u.openFacts {
			if f.at > nAssume || !covered(varsOf(i, f), m) {
				continue
			}
			inst := c.Subst(f.fact, m)
			if f.guard != nil {
				inst = c.Implies(c.Subst(f.guard, m), inst)
			}
			if inst.open || inst.IsTrue() || done[inst.id] {
				continue
			}
			done[inst.id] = true
			facts = append(facts, inst)
		}
		for _, pf := range u.ptrFacts {
			if !pf.x.open || pf.at > nAssume {
				continue
			}
			v := map[*Term]bool{}
			freeVars(pf.x, v, map[int]bool{}, map[*Term]bool{})
			if pf.guard != nil {
				freeVars(pf.guard, v, map[int]bool{}, map[*Term]bool{})
			}
			if !covered(v, m) {
				continue
			}
			np := ptrFact{x: c.Subst(pf.x, m), elem: pf.elem, at: pf.at}
			if pf.guard != nil {
				np.guard = c.Subst(pf.guard, m)
			}
			if !np.x.open && (np.guard == nil || !np.guard.open) {
				ptrs = append(ptrs, np)
			}
		}
	}
	return facts, ptrs
}

// indexTerms collects ground integer terms used as slice indices in the given formulas (E-matching by hand: the
// solvers normalise sums, so the pattern (+ off i) rarely matches (+ off j 1)).
func indexTerms(ts []*Term, max int) []*Term {
	var out []*Term
	seenT := map[int]bool{}
	seen := map[int]bool{}
	add := func(t *Term) {
		if t.open || t.Sort != SInt || seenT[t.id] || len(out) >= max {
			return
		}
		if t.Op == "sel" && t.Name == "soff" {
			return
		}
		if t.Op == "int" && t.Name == "0" {
			return
		}
		seenT[t.id] = true
		out = append(out, t)
	}
	var walk func(t *Term)
	walk = func(t *Term) {
		if seen[t.id] {
			return
		}
		seen[t.id] = true
		if t.Op == "strlit" && t.Name != "" && !seenT[t.id] && len(out) < 4*max {
			// string literals (condition types, annotation keys) are natural instances for string-typed quantifiers
			seenT[t.id] = true
			out = append(out, t)
		}
		if t.Op == "select" && !t.open && len(t.Args) == 2 && t.Args[0].Op == "select" && (t.Args[1].Sort == SStr || t.Args[1].Sort == SRef) {
			// key of a map read: natural instance for quantifiers over map keys
			k := t.Args[1]
			if !seenT[k.id] && len(out) < 4*max {
				seenT[k.id] = true
				out = append(out, k)
			}
		}
		if t.Op == "ctor" && t.Name == "pe" && !t.open {
			x := t.Args[1]
			if x.Op == "+" {
				add(x.Args[0])
				add(x.Args[1])
			} else {
				add(x)
			}
		}
		for _, a := range t.Args {
			walk(a)
		}
	}
	for _, t := range ts {
		walk(t)
	}
	return out
}

// ematch performs one round of trigger matching for hypotheses of the shape (g =>) forall a:Ref :: body with the
// single trigger select(A, a), A closed: every closed term select(A, t) occurring in ground yields the instance a := t.
func (u *Unit) ematch(hyps []*Term, ground []*Term) []*Term {
	c := u.c
	type ax struct {
		guard *Term
		q     *Term
	}
	byArr := map[*Term][]ax{}
	var collect func(guard, q *Term)
	collect = func(guard, q *Term) {
		switch {
		case q.Op == "forall" && len(q.Bound) == 1 && q.Bound[0].Sort == SRef && len(q.Pats) == 1 && len(q.Pats[0]) == 1:
			p := q.Pats[0][0]
			if p.Op == "select" && len(p.Args) == 2 && p.Args[1] == q.Bound[0] && !p.Args[0].open {
				byArr[p.Args[0]] = append(byArr[p.Args[0]], ax{guard, q})
			}
		case q.Op == "=>" && hasQuant(q.Args[1]) && !hasQuant(q.Args[0]):
			g := q.Args[0]
			if guard != nil {
				g = c.And(guard, g)
			}
			collect(g, q.Args[1])
		case q.Op == "and":
			for _, a := range q.Args {
				if hasQuant(a) {
					collect(guard, a)
				}
			}
		}
	}
	for _, h := range hyps {
		if hasQuant(h) {
			collect(nil, h)
		}
	}
	if len(byArr) == 0 {
		return nil
	}
	var out []*Term
	done := map[[2]int]bool{}
	seen := map[int]bool{}
	var walk func(t *Term)
	walk = func(t *Term) {
		if seen[t.id] {
			return
		}
		seen[t.id] = true
		if t.Op == "select" && len(t.Args) == 2 && !t.open {
			for _, a := range byArr[t.Args[0]] {
				k := [2]int{a.q.id, t.Args[1].id}
				if done[k] {
					continue
				}
				done[k] = true
				m := map[*Term]*Term{a.q.Bound[0]: t.Args[1]}
				body := c.Subst(a.q.Args[0], m)
				if a.guard != nil {
					body = c.Implies(a.guard, body)
				}
				if !body.IsTrue() && !body.open {
					out = append(out, body)
				}
			}
		}
		for _, x := range t.Args {
			walk(x)
		}
	}
	for _, g := range ground {
		walk(g)
	}
	// second round over the instances themselves (nested objects)
	n := len(out)
	for i := 0; i < n; i++ {
		walk(out[i])
	}
	return out
}
