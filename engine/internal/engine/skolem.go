package engine

import (
	"fmt"
	"strings"
)

// Skolemisation of the negated goal and instantiation of quantified hypotheses on the skolem constants.
// Both only add logical consequences / equivalent forms, so soundness is unaffected; they make most obligations
// with quantified invariants decidable by ground reasoning.

// negSkolem returns a formula equisatisfiable with (not p), with outer universal quantifiers of p replaced by
// fresh constants (collected in sk).
func (u *Unit) negSkolem(p *Term, sk *[]*Term) *Term {
	c := u.c
	switch {
	case p.Op == "forall":
		m := map[*Term]*Term{}
		for _, b := range p.Bound {
			k := c.Fresh("sk_"+b.Name, b.Sort)
			m[b] = k
			*sk = append(*sk, k)
		}
		u.substMaps = append(u.substMaps, m)
		return u.negSkolem(c.Subst(p.Args[0], m), sk)
	case p.Op == "and":
		var parts []*Term
		for _, a := range p.Args {
			parts = append(parts, u.negSkolem(a, sk))
		}
		return c.Or(parts...)
	case p.Op == "=>":
		return c.And(p.Args[0], u.negSkolem(p.Args[1], sk))
	case p.Op == "ite" && p.Sort == SBool:
		return c.Ite(p.Args[0], u.negSkolem(p.Args[1], sk), u.negSkolem(p.Args[2], sk))
	}
	return c.Not(p)
}

// instantiate produces instances of the universally quantified hypotheses on the given constants.
func (u *Unit) instantiate(hyps []*Term, consts []*Term) []*Term {
	if len(consts) == 0 {
		return nil
	}
	c := u.c
	bySort := map[*Sort][]*Term{}
	for _, k := range consts {
		bySort[k.Sort] = append(bySort[k.Sort], k)
	}
	var out []*Term
	var inst func(guard *Term, q *Term)
	inst = func(guard *Term, q *Term) {
		switch {
		case q.Op == "forall":
			// all combinations, bounded
			combos := []map[*Term]*Term{{}}
			for _, b := range q.Bound {
				cands := bySort[b.Sort]
				if len(cands) == 0 {
					return
				}
				// candidates that came from a goal variable of the same name first (sk_<name>_...): the cap below
				// then keeps the instances that line the hypothesis up with the goal
				if pref := "sk_" + boundBaseName(b) + "_"; len(cands) > 1 {
					var first, rest []*Term
					wit := "hx_" + boundBaseName(b) + "!"
					for _, k := range cands {
						if strings.HasPrefix(k.Name, pref) || strings.HasPrefix(k.Name, wit) {
							first = append(first, k)
						} else {
							rest = append(rest, k)
						}
					}
					cands = append(first, rest...)
				}
				var next []map[*Term]*Term
				for _, m := range combos {
					for _, k := range cands {
						n := map[*Term]*Term{}
						for x, y := range m {
							n[x] = y
						}
						n[b] = k
						next = append(next, n)
					}
				}
				combos = next
				cap := 48
				if u.instCap > cap {
					cap = u.instCap
				}
				if len(combos) > cap {
					combos = combos[:cap]
				}
			}
			for _, m := range combos {
				u.substMaps = append(u.substMaps, m)
				body := c.Subst(q.Args[0], m)
				if guard != nil {
					body = c.Implies(guard, body)
				}
				if !body.IsTrue() && !body.open {
					out = append(out, body)
				}
			}
		case q.Op == "=>" && hasQuant(q.Args[1]) && !hasQuant(q.Args[0]):
			g := q.Args[0]
			if guard != nil {
				g = c.And(guard, g)
			}
			inst(g, q.Args[1])
		case q.Op == "and":
			for _, a := range q.Args {
				if hasQuant(a) {
					inst(guard, a)
				}
			}
		}
	}
	for _, h := range hyps {
		if hasQuant(h) {
			inst(nil, h)
		}
	}
	return out
}

func freeVars(t *Term, out map[*Term]bool, seen map[int]bool, bound map[*Term]bool) {
	if !t.open {
		return
	}
	if t.isVar {
		if !bound[t] {
			out[t] = true
		}
		return
	}
	if len(t.Bound) > 0 {
		nb := map[*Term]bool{}
		for k := range bound {
			nb[k] = true
		}
		for _, b := range t.Bound {
			nb[b] = true
		}
		freeVars(t.Args[0], out, map[int]bool{}, nb)
		return
	}
	if seen[t.id] {
		return
	}
	seen[t.id] = true
	for _, a := range t.Args {
		freeVars(a, out, seen, bound)
	}
}

// instOpenFacts instantiates the recorded facts about bound variables (type invariants of values read under a
// quantifier) with the substitutions used for skolemisation and instantiation.
func (u *Unit) instOpenFacts(nAssume int) (facts []*Term, ptrs []ptrFact) {
	c := u.c
	if len(u.substMaps) == 0 {
		return nil, nil
	}
	type ofv struct {
		vars map[*Term]bool
	}
	cache := map[int]map[*Term]bool{}
	varsOf := func(i int, f openFact) map[*Term]bool {
		if v, ok := cache[i]; ok {
			return v
		}
		v := map[*Term]bool{}
		freeVars(f.fact, v, map[int]bool{}, map[*Term]bool{})
		if f.guard != nil {
			freeVars(f.guard, v, map[int]bool{}, map[*Term]bool{})
		}
		cache[i] = v
		return v
	}
	covered := func(vars map[*Term]bool, m map[*Term]*Term) bool {
		if len(vars) == 0 {
			return false
		}
		for v := range vars {
			if _, ok := m[v]; !ok {
				return false
			}
		}
		return true
	}
	done := map[int]bool{}
	for _, m := range u.substMaps {
		for i, f := range u.openFacts {
			if f.at > nAssume || !covered(varsOf(i, f), m) {
				continue
			}
			inst := c.Subst(f.fact, m)
			if f.guard != nil {
				inst = c.Implies(c.Subst(f.guard, m), inst)
			}
			if inst.open || inst.IsTrue() || done[inst.id] {
				continue
			}
			done[inst.id] = true
			facts = append(facts, inst)
		}
		for _, pf := range u.ptrFacts {
			if !pf.x.open || pf.at > nAssume {
				continue
			}
			v := map[*Term]bool{}
			freeVars(pf.x, v, map[int]bool{}, map[*Term]bool{})
			if pf.guard != nil {
				freeVars(pf.guard, v, map[int]bool{}, map[*Term]bool{})
			}
			if !covered(v, m) {
				continue
			}
			np := ptrFact{x: c.Subst(pf.x, m), elem: pf.elem, at: pf.at}
			if pf.guard != nil {
				np.guard = c.Subst(pf.guard, m)
			}
			if !np.x.open && (np.guard == nil || !np.guard.open) {
				ptrs = append(ptrs, np)
			}
		}
	}
	return facts, ptrs
}

// indexTerms collects ground integer terms used as slice indices in the given formulas (E-matching by hand: the
// solvers normalise sums, so the pattern (+ off i) rarely matches (+ off j 1)).
func indexTerms(ts []*Term, max int) []*Term {
	var out []*Term
	seenT := map[int]bool{}
	seen := map[int]bool{}
	nLog := 0
	add := func(t *Term) {
		if t.open || t.Sort != SInt || seenT[t.id] || len(out) >= max+nLog {
			return
		}
		if t.Op == "sel" && t.Name == "soff" {
			return
		}
		if t.Op == "int" && t.Name == "0" {
			return
		}
		seenT[t.id] = true
		out = append(out, t)
	}
	var walk func(t *Term)
	walk = func(t *Term) {
		if seen[t.id] {
			return
		}
		seen[t.id] = true
		if t.Op == "strlit" && t.Name != "" && !seenT[t.id] && len(out) < 4*max {
			// string literals (condition types, annotation keys) are natural instances for string-typed quantifiers
			seenT[t.id] = true
			out = append(out, t)
		}
		if t.Op == "select" && !t.open && len(t.Args) == 2 && t.Args[0].Op == "select" && (t.Args[1].Sort == SStr || t.Args[1].Sort == SRef) {
			// key of a map read: natural instance for quantifiers over map keys
			k := t.Args[1]
			if !seenT[k.id] && len(out) < 4*max {
				seenT[k.id] = true
				out = append(out, k)
			}
		}
		if t.Op == "select" && !t.open && len(t.Args) == 2 && t.Args[1].Sort == SInt && !seenT[t.Args[1].id] && nLog < max {
			// position in an integer-indexed sequence (the API call log): instance for its prefix-preservation axioms
			if k := t.Args[1]; !(k.Op == "int") {
				seenT[k.id] = true
				nLog++
				out = append(out, k)
			}
		}
		if t.Op == "ctor" && t.Name == "pe" && !t.open {
			x := t.Args[1]
			if x.Op == "+" {
				add(x.Args[0])
				add(x.Args[1])
			} else {
				add(x)
			}
		}
		for _, a := range t.Args {
			walk(a)
		}
	}
	for _, t := range ts {
		walk(t)
	}
	return out
}

// ematch performs one round of trigger matching for hypotheses of the shape (g =>) forall a:Ref :: body with the
// single trigger select(A, a), A closed: every closed term select(A, t) occurring in ground yields the instance a := t.
func (u *Unit) ematch(hyps []*Term, ground []*Term) []*Term {
	c := u.c
	type ax struct {
		guard *Term
		q     *Term
	}
	byArr := map[*Term][]ax{}
	var collect func(guard, q *Term)
	collect = func(guard, q *Term) {
		switch {
		case q.Op == "forall" && len(q.Bound) == 1 && q.Bound[0].Sort == SRef && len(q.Pats) == 1 && len(q.Pats[0]) == 1:
			p := q.Pats[0][0]
			if p.Op == "select" && len(p.Args) == 2 && p.Args[1] == q.Bound[0] && !p.Args[0].open {
				byArr[p.Args[0]] = append(byArr[p.Args[0]], ax{guard, q})
			}
		case q.Op == "=>" && hasQuant(q.Args[1]) && !hasQuant(q.Args[0]):
			g := q.Args[0]
			if guard != nil {
				g = c.And(guard, g)
			}
			collect(g, q.Args[1])
		case q.Op == "and":
			for _, a := range q.Args {
				if hasQuant(a) {
					collect(guard, a)
				}
			}
		}
	}
	for _, h := range hyps {
		if hasQuant(h) {
			collect(nil, h)
		}
	}
	if len(byArr) == 0 {
		return nil
	}
	var out []*Term
	done := map[[2]int]bool{}
	seen := map[int]bool{}
	var walk func(t *Term)
	walk = func(t *Term) {
		if seen[t.id] {
			return
		}
		seen[t.id] = true
		if t.Op == "select" && len(t.Args) == 2 && !t.open {
			for _, a := range byArr[t.Args[0]] {
				k := [2]int{a.q.id, t.Args[1].id}
				if done[k] {
					continue
				}
				done[k] = true
				m := map[*Term]*Term{a.q.Bound[0]: t.Args[1]}
				body := c.Subst(a.q.Args[0], m)
				if a.guard != nil {
					body = c.Implies(a.guard, body)
				}
				if !body.IsTrue() && !body.open {
					out = append(out, body)
				}
			}
		}
		for _, x := range t.Args {
			walk(x)
		}
	}
	for _, g := range ground {
		walk(g)
	}
	// second round over the instances themselves (nested objects)
	n := len(out)
	for i := 0; i < n; i++ {
		walk(out[i])
	}
	return out
}


// permCandidates: positions under the permutations introduced by sort models, for the goal's integer skolems. The
// hypotheses about a sorted slice only apply once a position in the sorted order is named.
func (u *Unit) permCandidates(sk []*Term) []*Term {
	n := u.counters["perm"]
	if n == 0 {
		return nil
	}
	var out []*Term
	for k := 1; k <= n; k++ {
		for _, name := range []string{"perm", "perminv"} {
			f := u.c.Func(fmt.Sprintf("%s!%d", name, k), []*Sort{SInt}, SInt)
			for _, s := range sk {
				if s.Sort == SInt {
					out = append(out, u.c.App(f, s))
				}
			}
		}
	}
	u.instCap = 2048
	return out
}

// strOrderInstances: ground instances of the strict-total-order axioms of str_lt on the string terms compared in ts.
func (u *Unit) strOrderInstances(ts []*Term) []*Term {
	if !u.needStrOrder {
		return nil
	}
	c := u.c
	f := c.Func("str_lt", []*Sort{SStr, SStr}, SBool)
	var terms []*Term
	have := map[int]bool{}
	seen := map[int]bool{}
	var walk func(t *Term)
	walk = func(t *Term) {
		if seen[t.id] {
			return
		}
		seen[t.id] = true
		if t.Op == "app" && t.Name == "str_lt" {
			if len(t.Args) == 2 && t.Args[0].Sort == SStr && t.Args[1].Sort == SStr && !t.open && t.Sort == SBool {
				for _, a := range t.Args {
					if !have[a.id] {
						have[a.id] = true
						terms = append(terms, a)
					}
				}
			}
		}
		for _, a := range t.Args {
			walk(a)
		}
	}
	for _, t := range ts {
		walk(t)
	}
	if len(terms) > 10 {
		terms = terms[:10]
	}
	lt := func(x, y *Term) *Term { return c.App(f, x, y) }
	var out []*Term
	for _, a := range terms {
		out = append(out, c.Not(lt(a, a)))
		for _, b := range terms {
			if a.id < b.id {
				out = append(out, c.Or(lt(a, b), lt(b, a), c.Eq(a, b)))
				out = append(out, c.Not(c.And(lt(a, b), lt(b, a))))
			}
			for _, d := range terms {
				if a != b && b != d && a != d {
					out = append(out, c.Implies(c.And(lt(a, b), lt(b, d)), lt(a, d)))
				}
			}
		}
	}
	return out
}


// boundBaseName strips the uniquifying suffix of a bound variable name ("a?3" -> "a").
func boundBaseName(b *Term) string {
	n := b.Name
	if i := strings.IndexAny(n, "?!"); i >= 0 {
		n = n[:i]
	}
	return n
}

// posSkolem replaces existential quantifiers in positive position of a hypothesis by fresh constants (collected in
// sk). The result is equisatisfiable with t in any context where t is asserted.
func (u *Unit) posSkolem(t *Term, sk *[]*Term) *Term {
	c := u.c
	if !hasQuant(t) {
		return t
	}
	switch {
	case t.Op == "exists":
		m := map[*Term]*Term{}
		for _, b := range t.Bound {
			k := c.Fresh("hx_"+boundBaseName(b), b.Sort)
			m[b] = k
			*sk = append(*sk, k)
		}
		u.substMaps = append(u.substMaps, m)
		return u.posSkolem(c.Subst(t.Args[0], m), sk)
	case t.Op == "and":
		var parts []*Term
		for _, a := range t.Args {
			parts = append(parts, u.posSkolem(a, sk))
		}
		return c.And(parts...)
	case t.Op == "or":
		var parts []*Term
		for _, a := range t.Args {
			parts = append(parts, u.posSkolem(a, sk))
		}
		return c.Or(parts...)
	case t.Op == "=>" && !hasQuant(t.Args[0]):
		return c.Implies(t.Args[0], u.posSkolem(t.Args[1], sk))
	}
	return t
}

// weakenNegExists replaces, in a (negated, skolemised) goal, every sub-formula not(exists x. f) in positive position
// by the conjunction of not f[x:=k] over the candidate constants k. This only weakens the negated goal, so
// unsatisfiability of the result still proves the goal.
func (u *Unit) weakenNegExists(t *Term, cands []*Term) *Term {
	c := u.c
	if !hasQuant(t) {
		return t
	}
	switch {
	case t.Op == "not" && t.Args[0].Op == "exists":
		q := t.Args[0]
		bySort := map[*Sort][]*Term{}
		for _, k := range cands {
			bySort[k.Sort] = append(bySort[k.Sort], k)
		}
		combos := []map[*Term]*Term{{}}
		for _, b := range q.Bound {
			var next []map[*Term]*Term
			for _, m := range combos {
				for _, k := range bySort[b.Sort] {
					n := map[*Term]*Term{}
					for x, y := range m {
						n[x] = y
					}
					n[b] = k
					next = append(next, n)
				}
			}
			combos = next
			lim := 64
			if u.goalInstCap > lim {
				lim = u.goalInstCap
			}
			if len(combos) > lim {
				combos = combos[:lim]
			}
		}
		var parts []*Term
		for _, m := range combos {
			if len(m) != len(q.Bound) {
				continue
			}
			inst := c.Not(c.Subst(q.Args[0], m))
			if !inst.open {
				parts = append(parts, u.weakenNegExists(inst, cands))
			}
		}
		return c.And(parts...)
	case t.Op == "not" && t.Args[0].Op == "or":
		var parts []*Term
		for _, a := range t.Args[0].Args {
			parts = append(parts, u.weakenNegExists(c.Not(a), cands))
		}
		return c.And(parts...)
	case t.Op == "and":
		var parts []*Term
		for _, a := range t.Args {
			parts = append(parts, u.weakenNegExists(a, cands))
		}
		return c.And(parts...)
	case t.Op == "or":
		var parts []*Term
		for _, a := range t.Args {
			parts = append(parts, u.weakenNegExists(a, cands))
		}
		return c.Or(parts...)
	case t.Op == "ite" && t.Sort == SBool && !hasQuant(t.Args[0]):
		return c.Ite(t.Args[0], u.weakenNegExists(t.Args[1], cands), u.weakenNegExists(t.Args[2], cands))
	}
	return t
}

// alphaKey is a key for quantified formulas that identifies formulas differing only in the names of bound variables.
func alphaKey(t *Term) string {
	var b strings.Builder
	names := map[*Term]string{}
	var rec func(t *Term)
	rec = func(t *Term) {
		if !t.open && t.Op != "forall" && t.Op != "exists" {
			fmt.Fprintf(&b, "t%d", t.id)
			return
		}
		if t.isVar {
			if n, ok := names[t]; ok {
				b.WriteString(n)
			} else {
				fmt.Fprintf(&b, "free%d", t.id)
			}
			return
		}
		if t.Op == "forall" || t.Op == "exists" {
			b.WriteString("(" + t.Op)
			for _, v := range t.Bound {
				names[v] = fmt.Sprintf("#%d:%s", len(names), v.Sort.Name)
				b.WriteString(" " + names[v])
			}
			b.WriteString(" ")
			rec(t.Args[0])
			b.WriteString(")")
			return
		}
		b.WriteString("(" + t.Op + ":" + t.Name)
		for _, a := range t.Args {
			b.WriteString(" ")
			rec(a)
		}
		b.WriteString(")")
	}
	rec(t)
	return b.String()
}
