package engine

import (
	"os"
	"crypto/sha256"
	"fmt"
	"go/ast"
	"go/printer"
	"go/types"
	"sort"
	"strings"

	"golang.org/x/tools/go/ssa"
)

// UnitResult is everything generated for one function under contract.
type UnitResult struct {
	Name        string
	Obligations []*Obligation
	Unit        *Unit
	Err         error
	Fingerprint string
	Trusted     bool
}

func (e *Engine) newUnit(name string, fn *ssa.Function, con *Contract) *Unit {
	u := &Unit{e: e, c: NewTermCtx(), fn: fn, con: con, name: shortName(name), invDone: map[string]bool{}, counters: map[string]int{},
		usedTrusted: map[string]bool{}, pureApps: map[string]bool{}, mapAxDone: map[string]bool{},
		globalVals: map[string]*SV{}, closures: map[*Term]*closureVal{}, usedContracts: map[string]bool{}}
	if con != nil && con.Display != "" {
		u.name = shortName(con.Display)
	}
	u.alloc0 = u.c.Const("alloc0", SInt)
	u.c.allocBase = map[int]bool{u.alloc0.id: true}
	u.c.oldRoot = map[int]bool{}
	u.c.rootTag = map[int]interface{}{}
	u.c.allocLB = map[int]*Term{}
	u.c.incompat = rootsIncompatible
	u.assume(nil, u.c.Le(u.c.Int(1), u.alloc0))
	u.entry = &State{heap: map[string]*Term{}, alloc: u.alloc0, iters: map[ssa.Value]*iterState{}}
	if con != nil {
		u.arithWrap = con.ArithWrap
	}
	return u
}

// Fingerprint hashes the printed source of a function.
func (e *Engine) Fingerprint(fn *ssa.Function) string {
	syn := fn.Syntax()
	if syn == nil {
		return ""
	}
	var b strings.Builder
	switch n := syn.(type) {
	case *ast.FuncDecl:
		cp := *n
		cp.Doc = nil
		printer.Fprint(&b, e.fset, &cp)
	default:
		printer.Fprint(&b, e.fset, syn)
	}
	return fmt.Sprintf("%x", sha256.Sum256([]byte(b.String())))[:16]
}

// VerifyFunction generates all obligations of one function under contract.
func (e *Engine) VerifyFunction(name string) (res *UnitResult) {
	con := e.contracts[name]
	fn := e.fns[name]
	res = &UnitResult{Name: shortName(name)}
	if con != nil && con.Display != "" {
		res.Name = shortName(con.Display)
	}
	if con == nil || fn == nil {
		res.Err = fmt.Errorf("no contract or function for %s", name)
		return res
	}
	res.Fingerprint = e.Fingerprint(fn)
	u := e.newUnit(name, fn, con)
	res.Unit = u
	for _, cl := range con.Ensures {
		if strings.Contains(cl.Src, "logsent(") || strings.Contains(cl.Line, "logsent(") {
			u.wantsSent = true
		}
	}
	if con.Trusted {
		res.Trusted = true
		return res
	}
	defer func() {
		if r := recover(); r != nil {
			switch x := r.(type) {
			case unsupportedErr:
				res.Err = fmt.Errorf("%s: %v", name, x)
			case specError:
				res.Err = fmt.Errorf("%s: contract error: %s", name, x.msg)
			default:
				panic(r)
			}
		}
		res.Obligations = u.obls
	}()
	c := u.c
	st := u.entry.clone()
	pc := c.True()
	// symbolic parameters
	var args, fvs []*SV
	for _, p := range fn.Params {
		args = append(args, u.freshSV(p.Name(), p.Type(), st, nil))
	}
	for _, fv := range fn.FreeVars {
		fvs = append(fvs, u.freshSV(fv.Name(), fv.Type(), st, nil))
		// captured variables are live cells
		u.assume(nil, c.Neq(fvs[len(fvs)-1].T, c.Nil()))
	}
	u.args, u.fvs = args, fvs
	env := u.unitEnv(con, fn, args, fvs, st, pc)
	u.entryEnv = env
	// preconditions
	var pres []*Term
	for _, r := range con.Requires {
		p := u.evalClause(env, r)
		pres = append(pres, p)
		u.assume(nil, p)
	}
	// vacuity guard: preconditions satisfiable
	cov := u.oblige("cover", "requires", nil, c.True(), c.True(), "preconditions and type invariants are satisfiable", fn.Pos())
	cov.Cover = true
	// declared frame
	if con.Pure || (con.Transparent && !con.HasModifies) {
		u.frame = &FrameSpec{}
	} else if con.ModAny {
		u.frame = nil
	} else {
		u.frame = &FrameSpec{}
		for _, m := range con.Modifies {
			u.addModifies(u.frame, env, m)
		}
	}
	entrySnap := st.clone()
	rets := u.runBody(fn, args, fvs, st, pc, true, con, false)
	// postconditions: one named obligation per clause, discharged as one query per return point
	sig := fn.Signature
	if len(rets) > 0 {
		var edges []edge
		for _, r := range rets {
			edges = append(edges, edge{nil, r.guard, r.st})
		}
		rg, rst := u.mergeStates(edges)
		u.retState = rst.clone()
		parents := make([]*Obligation, len(con.Ensures))
		for i, en := range con.Ensures {
			label := en.Label
			if label == "" {
				label = fmt.Sprintf("%d", i)
			}
			parents[i] = u.oblige("post", label, en.Tags, rg, c.True(), "postcondition: "+en.Src, fn.Pos())
		}
		for ri, r := range rets {
			post := u.unitEnv(con, fn, args, fvs, r.st, r.guard)
			oe := *env
			oe.st = entrySnap
			post.old = &oe
			u.bindResults(post, sig, r.vals)
			for i, en := range con.Ensures {
				p := u.evalClause(post, en)
				part := &Obligation{Name: fmt.Sprintf("%s@ret%d", parents[i].Name, ri), Kind: "post", Tags: en.Tags, Guard: r.guard, Prop: p,
					NAssume: len(u.assumptions), Src: parents[i].Src, Unit: u, Pos: parents[i].Pos, RetState: r.st.clone(), RetVals: r.vals}
				if r.pos.IsValid() {
					part.Pos = u.e.fset.Position(r.pos)
				}
				parents[i].Parts = append(parents[i].Parts, part)
			}
		}
		cov := u.oblige("cover", "return", nil, rg, c.True(), "some return is reachable", fn.Pos())
		cov.Cover = true
		if len(rets) > 1 {
			for ri, r := range rets {
				cov.Parts = append(cov.Parts, &Obligation{Name: fmt.Sprintf("%s@ret%d", cov.Name, ri), Kind: "cover", Guard: r.guard, Prop: c.True(),
					NAssume: r.nAssume, Src: cov.Src, Unit: u, Pos: cov.Pos, Cover: true})
			}
		}
	}
	return res
}

// unitEnv binds parameters (and captured variables) of the unit's own function.
func (u *Unit) unitEnv(con *Contract, fn *ssa.Function, args, fvs []*SV, st *State, pc *Term) *SpecEnv {
	env := &SpecEnv{u: u, st: st, vars: map[string]specVal{}, guard: pc, fnName: u.name}
	env.pkg = u.e.typesPkg(con.PkgPath)
	env.imports = u.e.importsFor(con)
	env.lets = map[string]Expr{}
	for _, l := range con.Lets {
		env.lets[l.Name] = l.E
	}
	for i, p := range fn.Params {
		env.vars[p.Name()] = specVal{v: args[i], t: p.Type()}
	}
	for i, fv := range fn.FreeVars {
		pt := fv.Type().Underlying().(*types.Pointer).Elem()
		a := fvs[i].T
		env.vars[fv.Name()] = specVal{v: u.load(st, a, pt, pc), t: pt, addr: a}
	}
	return env
}

// VerifyLemma turns a lemma into one obligation: requires ==> ensures for all parameters.
func (e *Engine) VerifyLemma(l *Lemma) *UnitResult {
	res := &UnitResult{Name: "lemma:" + l.Name}
	u := e.newUnit("lemma:"+l.Name, nil, nil)
	res.Unit = u
	defer func() {
		if r := recover(); r != nil {
			switch x := r.(type) {
			case unsupportedErr:
				res.Err = fmt.Errorf("lemma %s: %v", l.Name, x)
			case specError:
				res.Err = fmt.Errorf("lemma %s: contract error: %s", l.Name, x.msg)
			default:
				panic(r)
			}
		}
		res.Obligations = u.obls
	}()
	c := u.c
	env := &SpecEnv{u: u, st: u.entry.clone(), vars: map[string]specVal{}, guard: c.True(), fnName: u.name}
	env.pkg = e.typesPkg(l.PkgPath)
	if l.file != nil {
		env.imports = l.file.Imports
	}
	env.lets = map[string]Expr{}
	for _, ld := range l.Lets {
		env.lets[ld.Name] = ld.E
	}
	for _, b := range l.Params {
		s, t := env.binderSort(b.Type)
		x := c.Fresh(b.Name, s)
		if t != nil {
			u.assumeTypeInv(x, t, env.st, nil)
		}
		env.vars[b.Name] = specVal{v: leaf(x), t: t}
	}
	for _, r := range l.Requires {
		u.assume(nil, u.evalClause(env, r))
	}
	cov := u.oblige("cover", "requires", nil, c.True(), c.True(), "lemma hypotheses are satisfiable", 0)
	cov.Cover = true
	for i, en := range l.Ensures {
		label := en.Label
		if label == "" {
			label = fmt.Sprintf("%d", i)
		}
		tags := en.Tags
		if len(tags) == 0 {
			tags = l.Tags
		}
		u.oblige("lemma", label, tags, c.True(), u.evalClause(env, en), "lemma: "+en.Src, 0)
	}
	return res
}

// VC returns the assertions whose conjunction must be unsatisfiable for the obligation to hold.
func (o *Obligation) VC() []*Term {
	u := o.Unit
	var as []*Term
	if o.Cover {
		// reachability queries must come back "sat": quantified assumptions (frame and enumeration axioms) are left
		// out so that the solvers can decide them; what is checked is consistency of the ground facts on the path.
		var hyps []*Term
		for _, a := range u.assumptions[:o.NAssume] {
			if !hasQuant(a) {
				hyps = append(hyps, a)
			}
		}
		as = append(as, filterRelevant([]*Term{o.Guard}, hyps)...)
		as = append(as, o.Guard)
		as = append(as, u.frameInstances(as, o.NAssume)...)
		return as
	}
	var sk []*Term
	u.substMaps = nil
	goal := []*Term{o.Guard, u.negSkolem(o.Prop, &sk)}
	hyps := append([]*Term{}, u.assumptions[:o.NAssume]...)
	hyps = append(hyps, u.aliasFacts(o.NAssume)...)
	kept := filterRelevant(goal, hyps)
	as = append(as, kept...)
	cands := append(append([]*Term{}, sk...), indexTerms(goal, 6)...)
	as = append(as, u.instantiate(kept, cands)...)
	of, op := u.instOpenFacts(o.NAssume)
	as = append(as, of...)
	as = append(as, u.aliasFactsFor(op, o.NAssume)...)
	as = append(as, u.strOrderAxioms()...)
	as = append(as, goal...)
	as = append(as, u.frameInstances(as, o.NAssume)...)
	return as
}

func (u *Unit) strOrderAxioms() []*Term {
	if !u.needStrOrder {
		return nil
	}
	c := u.c
	f := c.Func("str_lt", []*Sort{SStr, SStr}, SBool)
	a, b, d := c.BoundVar("sa", SStr), c.BoundVar("sb", SStr), c.BoundVar("sc", SStr)
	lt := func(x, y *Term) *Term { return c.App(f, x, y) }
	return []*Term{
		c.Forall([]*Term{a}, c.Not(lt(a, a))),
		c.Forall([]*Term{a, b, d}, c.Implies(c.And(lt(a, b), lt(b, d)), lt(a, d))),
		c.Forall([]*Term{a, b}, c.Or(lt(a, b), lt(b, a), c.Eq(a, b))),
	}
}

// Script renders the SMT-LIB2 problem for an obligation.
func (o *Obligation) Script(model bool) string {
	return o.Unit.c.Script(o.VC(), model, "")
}

// UnitsFor lists the functions (full names) whose contracts carry the property tag, plus lemmas.
func (e *Engine) UnitsFor(prop string) (fns []string, lemmas []*Lemma) {
	for name, con := range e.contracts {
		if con.External {
			continue
		}
		if con.Tags[prop] || prop == "C16" || prop == "*" {
			fns = append(fns, name)
			continue
		}
		for _, lc := range con.Loops {
			for _, inv := range lc.Invariants {
				for _, t := range inv.Tags {
					if t == prop {
						fns = append(fns, name)
					}
				}
			}
		}
	}
	sort.Strings(fns)
	for _, l := range e.lemmas {
		hit := prop == "*"
		for _, t := range l.Tags {
			if t == prop {
				hit = true
			}
		}
		for _, en := range l.Ensures {
			for _, t := range en.Tags {
				if t == prop {
					hit = true
				}
			}
		}
		if hit {
			lemmas = append(lemmas, l)
		}
	}
	return fns, lemmas
}

func hasQuant(t *Term) bool {
	seen := map[int]bool{}
	var rec func(t *Term) bool
	rec = func(t *Term) bool {
		if seen[t.id] {
			return false
		}
		seen[t.id] = true
		if len(t.Bound) > 0 {
			return true
		}
		for _, a := range t.Args {
			if rec(a) {
				return true
			}
		}
		return false
	}
	return rec(t)
}

// RelaxedVC is the quantifier-free relaxation (quantified assumptions dropped, frame axioms instantiated on the
// addresses that are read). A model of it is only a *candidate* explanation of an unproved obligation.
func (o *Obligation) RelaxedVC() []*Term {
	as, _ := o.RelaxedVCGoal()
	return as
}

func (o *Obligation) RelaxedVCGoal() ([]*Term, *Term) {
	u := o.Unit
	c := u.c
	var as []*Term
	var hsk []*Term // constants for existentials of the hypotheses
	for _, a := range u.assumptions[:o.NAssume] {
		if !hasQuant(a) {
			as = append(as, a)
		} else if s := u.posSkolem(a, &hsk); !hasQuant(s) {
			as = append(as, s)
		}
	}
	as = append(as, u.aliasFacts(o.NAssume)...)
	as = append(as, o.Guard)
	var sk []*Term
	u.substMaps = nil
	ng := u.negSkolem(o.Prop, &sk)
	// universally quantified antecedents of the goal (p ==> q with p quantified) are hypotheses of the negated goal:
	// they are instantiated like the other hypotheses instead of blocking the ground stage
	var goalHyps []*Term
	if ng.Op == "and" {
		var rest []*Term
		for _, part := range ng.Args {
			if hasQuant(part) && (part.Op == "forall" || part.Op == "=>" && !hasQuant(part.Args[0])) {
				goalHyps = append(goalHyps, part)
			} else {
				rest = append(rest, part)
			}
		}
		if len(goalHyps) > 0 {
			ng = c.And(rest...)
		}
	}
	cands := append(append([]*Term{}, sk...), indexTerms([]*Term{o.Guard, ng}, 6)...)
	cands = append(cands, hsk...)
	u.instCap = 0
	{
		// positions under sort permutations: for the goal's skolems and, when the goal has none (an existential
		// goal), for the loop positions mentioned on the path
		base := sk
		if len(base) == 0 {
			for _, k := range cands {
				if k.Sort == SInt && len(base) < 6 {
					base = append(base, k)
				}
			}
		}
		cands = append(cands, u.permCandidates(base)...)
	}
	if os.Getenv("GOVC_DEBUG") == "5" {
		for _, k := range cands {
			fmt.Fprintln(os.Stderr, "cand:", o.Name, trunc(k.String(), 100))
		}
	}
	// two rounds: instances of universally quantified hypotheses may contain existentials, whose witnesses (fresh
	// constants) are candidates for the second round and for the existentials of the goal
	seenInst := map[int]bool{}
	allHyps := append(append([]*Term{}, u.assumptions[:o.NAssume]...), goalHyps...)
	// modus ponens on quantified antecedents: a hypothesis (g ==>) P ==> Q whose quantified antecedent P is, literally,
	// one of the formulas asserted by the negated goal contributes (g ==>) Q
	if len(goalHyps) > 0 {
		known := map[string]bool{}
		for _, h := range goalHyps {
			known[alphaKey(h)] = true
		}
		for _, a := range u.assumptions[:o.NAssume] {
			if !hasQuant(a) {
				continue
			}
			var guards []*Term
			cur, used := a, false
			for cur.Op == "=>" {
				if !hasQuant(cur.Args[0]) {
					guards = append(guards, cur.Args[0])
				} else if known[alphaKey(cur.Args[0])] {
					used = true
				} else {
					used = false
					break
				}
				cur = cur.Args[1]
			}
			if used {
				allHyps = append(allHyps, c.Implies(c.And(guards...), cur))
			}
		}
	}
	round := func(cs []*Term) []*Term {
		var fresh []*Term
		for _, in := range u.instantiate(allHyps, cs) {
			in = u.posSkolem(in, &fresh)
			if !seenInst[in.id] {
				seenInst[in.id] = true
				as = append(as, in)
			}
		}
		return fresh
	}
	witnesses := round(cands)
	if len(witnesses) > 0 && len(witnesses) <= 12 {
		cands = append(cands, witnesses...)
		witnesses = append(witnesses, round(cands)...)
	}
	u.instCap = 0
	if hasQuant(ng) {
		gc := append(append([]*Term{}, cands...), witnesses...)
		gc = append(gc, indexTerms(as, 10)...)
		u.goalInstCap = 0
		if n := u.counters["perm"]; n > 0 {
			// positions under the permutations of sort models, for every integer candidate (witnesses of a goal about
			// the unsorted sequence are images of positions in the sorted one)
			var ints []*Term
			for _, k := range gc {
				if k.Sort == SInt && len(ints) < 12 {
					ints = append(ints, k)
				}
			}
			gc = append(gc, u.permCandidates(ints)...)
			u.instCap = 0
			u.goalInstCap = 4096
		}
		if os.Getenv("GOVC_DEBUG") == "5" {
			for _, k := range gc {
				fmt.Fprintln(os.Stderr, "goalcand:", o.Name, trunc(k.String(), 120))
			}
		}
		ng = u.weakenNegExists(ng, gc)
		u.goalInstCap = 0
	}
	if !hasQuant(ng) {
		as = append(as, ng)
	}
	of, op := u.instOpenFacts(o.NAssume)
	as = append(as, of...)
	as = append(as, u.aliasFactsFor(op, o.NAssume)...)
	as = append(as, u.frameInstances(as, o.NAssume)...)
	as = append(as, u.ematch(u.assumptions[:o.NAssume], as)...)
	as = append(as, u.strOrderInstances(as)...)
	var qf []*Term
	for _, a := range as {
		if !hasQuant(a) {
			qf = append(qf, a)
		}
	}
	_ = c
	return qf, ng
}
