package engine

import (
	"bytes"
	"context"
	"fmt"
	"go/types"
	"os"
	"os/exec"
	"strings"
	"time"
)

// ---------------------------------------------------------------------------
// Model extraction: evaluate chosen terms in the solver's model with (get-value ...)
// ---------------------------------------------------------------------------

type probe struct {
	Label  string
	T      *Term
	Type   types.Type
	Parent string // label of the pointer / slice / map-presence probe that must be "live" for this one to matter
	Idx    int    // element index under a slice parent (else -1)
}

// walkProbes lists the terms describing value v of type t (entry heap), following pointers/slices to depth.
func (u *Unit) walkProbes(label string, v *SV, t types.Type, depth int, out *[]probe) {
	u.walkProbesP(label, v, t, depth, out, "", -1)
}

func (u *Unit) walkProbesP(label string, v *SV, t types.Type, depth int, out *[]probe, parent string, idx int) {
	c := u.c
	if v.T != nil {
		*out = append(*out, probe{label, v.T, t, parent, idx})
		if depth <= 0 {
			return
		}
		switch tt := t.Underlying().(type) {
		case *types.Pointer:
			if u.leafSort(tt.Elem()) == nil || depth > 0 {
				func() {
					defer func() { recover() }()
					pv := u.load(u.entry.clone(), v.T, tt.Elem(), nil)
					u.walkProbesP("(*"+label+")", pv, tt.Elem(), depth-1, out, label, -1)
				}()
			}
		case *types.Slice:
			for i := 0; i < 3; i++ {
				func() {
					defer func() { recover() }()
					ev := u.load(u.entry.clone(), c.SElem(v.T, c.Int(int64(i))), tt.Elem(), nil)
					u.walkProbesP(fmt.Sprintf("%s[%d]", label, i), ev, tt.Elem(), depth-1, out, label, i)
				}()
			}
		case *types.Map:
			if u.leafSort(tt.Key()) == SStr {
				for _, k := range u.c.strOrd {
					func() {
						defer func() { recover() }()
						val, found := u.mapRead(u.entry.clone(), nil, tt, v.T, c.Str(k))
						*out = append(*out, probe{fmt.Sprintf("%s[%q]?", label, k), found, types.Typ[types.Bool], label, -1})
						u.walkProbesP(fmt.Sprintf("%s[%q]", label, k), val, tt.Elem(), depth-1, out, fmt.Sprintf("%s[%q]?", label, k), -1)
					}()
				}
			}
		}
		return
	}
	switch tt := t.Underlying().(type) {
	case *types.Struct:
		for i := range v.F {
			u.walkProbesP(label+"."+tt.Field(i).Name(), v.F[i], tt.Field(i).Type(), depth, out, parent, idx)
		}
	case *types.Tuple:
		for i := range v.F {
			u.walkProbesP(fmt.Sprintf("%s#%d", label, i), v.F[i], tt.At(i).Type(), depth, out, parent, idx)
		}
	case *types.Array:
		for i := range v.F {
			u.walkProbesP(fmt.Sprintf("%s[%d]", label, i), v.F[i], tt.Elem(), depth, out, parent, idx)
		}
	}
}

// GetValues runs z3-new on the obligation's VC and evaluates the probes. Returns label -> value text.
func (o *Obligation) GetValues(probes []probe, timeoutS int, file string) (map[string]string, string, error) {
	return o.GetValuesFor(o.VC(), probes, timeoutS, file)
}

func (o *Obligation) GetValuesFor(vc []*Term, probes []probe, timeoutS int, file string) (map[string]string, string, error) {
	u := o.Unit
	// bind each probe to a fresh constant so that get-value output is easy to parse
	var as []*Term
	as = append(as, vc...)
	names := make([]string, len(probes))
	for i, p := range probes {
		k := u.c.Const(fmt.Sprintf("probe!%d", i), p.T.Sort)
		names[i] = k.Name
		as = append(as, u.c.Eq(k, p.T))
	}
	script := u.c.Script(as, false, "")
	var b strings.Builder
	b.WriteString(script)
	for _, n := range names {
		fmt.Fprintf(&b, "(get-value (%s))\n", symQuote(n))
	}
	// value of string literals, to map abstract Str values back to Go strings
	for i := range u.c.strOrd {
		fmt.Fprintf(&b, "(get-value (str!%d))\n", i)
	}
	os.WriteFile(file, []byte(b.String()), 0o644)
	ctx, cancel := context.WithTimeout(context.Background(), time.Duration(timeoutS+2)*time.Second)
	defer cancel()
	cmd := exec.CommandContext(ctx, "z3-new", fmt.Sprintf("-T:%d", timeoutS), file)
	var out bytes.Buffer
	cmd.Stdout = &out
	cmd.Stderr = &out
	cmd.Run()
	lines := strings.Split(out.String(), "\n")
	if len(lines) == 0 || strings.TrimSpace(lines[0]) != "sat" {
		return nil, out.String(), fmt.Errorf("no model: %s", strings.TrimSpace(lines[0]))
	}
	vals := map[string]string{}
	// outputs are of the form ((name value)) possibly spanning lines
	text := strings.Join(lines[1:], "\n")
	entries := splitSexprs(text)
	litOf := map[string]string{}
	for _, e := range entries {
		e = strings.TrimSpace(e)
		if !strings.HasPrefix(e, "((") {
			continue
		}
		inner := strings.TrimSpace(e[2 : len(e)-2])
		sp := strings.IndexAny(inner, " \n")
		if sp < 0 {
			continue
		}
		name := strings.Trim(inner[:sp], "|")
		val := strings.Join(strings.Fields(inner[sp+1:]), " ")
		if strings.HasPrefix(name, "str!") {
			var idx int
			fmt.Sscanf(name, "str!%d", &idx)
			if idx < len(u.c.strOrd) {
				litOf[val] = u.c.strOrd[idx]
			}
			continue
		}
		for i, n := range names {
			if n == name {
				vals[probes[i].Label] = val
			}
		}
	}
	for k, v := range vals {
		if s, ok := litOf[v]; ok {
			vals[k] = fmt.Sprintf("%q", s)
		}
	}
	return vals, out.String(), nil
}

func splitSexprs(s string) []string {
	var out []string
	depth, start := 0, -1
	for i, ch := range s {
		switch ch {
		case '(':
			if depth == 0 {
				start = i
			}
			depth++
		case ')':
			depth--
			if depth == 0 && start >= 0 {
				out = append(out, s[start:i+1])
				start = -1
			}
		}
	}
	return out
}

// liveProbes filters probes to those reachable in the model (non-nil parents, indices within length).
func liveProbes(probes []probe, vals map[string]string) []probe {
	live := map[string]bool{"": true}
	var out []probe
	for _, p := range probes {
		if !live[p.Parent] {
			continue
		}
		if p.Parent != "" {
			pv := vals[p.Parent]
			switch {
			case strings.HasPrefix(pv, "(mkslice"):
				f := strings.Fields(strings.NewReplacer("(", " ", ")", " ").Replace(pv))
				// mkslice mkref root path... off len cap : len is the second to last number
				n := 0
				if len(f) >= 3 {
					fmt.Sscanf(f[len(f)-2], "%d", &n)
				}
				if strings.Contains(pv, "(mkref 0 pnil)") || p.Idx >= n {
					continue
				}
			case pv == "(mkref 0 pnil)" || pv == "false" || pv == "":
				continue
			}
		}
		live[p.Label] = true
		out = append(out, p)
	}
	return out
}
