package engine

import (
	"fmt"
	"go/constant"
	"go/token"
	"go/types"
	"math/big"

	"golang.org/x/tools/go/ssa"
)

// val returns the symbolic value of an SSA value in the current frame.
func (u *Unit) val(fc *frameCtx, v ssa.Value) *SV {
	if sv, ok := fc.vals[v]; ok {
		return sv
	}
	c := u.c
	switch x := v.(type) {
	case *ssa.Const:
		return u.constSV(x)
	case *ssa.Global:
		return leaf(u.globalAddr(x))
	case *ssa.Function:
		return leaf(u.funcRef(x.String()))
	case *ssa.Builtin:
		return leaf(c.Nil())
	}
	// value from a block that was unreachable in this traversal
	panic(unsupported("use of value %s (%T) before definition in %s", v.Name(), v, fc.fn.Name()))
}

func (u *Unit) funcRef(name string) *Term {
	t := u.c.Const("fn_"+sanitizeSym(name), SRef)
	u.assume(nil, u.c.Neq(t, u.c.Nil()))
	return t
}

func (u *Unit) globalAddr(g *ssa.Global) *Term {
	c := u.c
	id := c.Const("glob_"+sanitizeSym(g.String()), SInt)
	key := "glob|" + g.String()
	if !u.invDone[key] {
		u.invDone[key] = true
		u.assume(nil, c.And(c.Le(c.Int(1), id), c.Lt(id, u.alloc0)))
		for _, other := range u.globalsSeen {
			u.assume(nil, c.Neq(id, other))
		}
		u.globalsSeen = append(u.globalsSeen, id)
	}
	return c.Obj(id)
}

func (u *Unit) constSV(k *ssa.Const) *SV {
	c := u.c
	t := k.Type()
	if k.Value == nil {
		// zero value of any type (nil pointers, zero structs)
		if b, ok := t.Underlying().(*types.Basic); ok && b.Kind() == types.UntypedNil {
			return leaf(c.Nil())
		}
		return u.zeroSV(t)
	}
	s := u.leafSort(t)
	switch s {
	case SBool:
		return leaf(c.Bool(constant.BoolVal(k.Value)))
	case SStr:
		return leaf(c.Str(constant.StringVal(k.Value)))
	case SInt:
		if isTimeType(t) {
			return leaf(c.Int(0))
		}
		iv := constant.ToInt(k.Value)
		if iv.Kind() == constant.Int {
			bi, _ := new(big.Int).SetString(iv.ExactString(), 10)
			return leaf(c.BigInt(bi))
		}
		return leaf(c.Fresh("kconst", SInt))
	case SReal:
		f := constant.ToFloat(k.Value)
		r, _ := new(big.Rat).SetString(f.ExactString())
		if r == nil {
			return leaf(c.Fresh("kreal", SReal))
		}
		return leaf(u.ratTerm(r))
	}
	panic(unsupported("constant of type %s", t))
}

func (u *Unit) ratTerm(r *big.Rat) *Term {
	c := u.c
	num := c.Real(r.Num().String() + ".0")
	if r.IsInt() {
		return num
	}
	return c.mk("/", "", SReal, num, c.Real(r.Denom().String()+".0"))
}

func fieldLabel(st *types.Struct, i int) string { return st.Field(i).Name() }

// exec executes one non-terminator instruction.
func (u *Unit) exec(fc *frameCtx, st *State, pc *Term, insn ssa.Instruction) {
	c := u.c
	switch t := insn.(type) {
	case *ssa.DebugRef:
		return
	case *ssa.Alloc:
		ref := u.allocObj(st)
		et := t.Type().Underlying().(*types.Pointer).Elem()
		u.store(st, ref, et, u.zeroSV(et))
		if at, ok := et.Underlying().(*types.Array); ok {
			u.assume(pc, c.Eq(u.rootType(c.Root(ref)), u.arrTypeID(at.Elem())))
		} else {
			u.assume(pc, c.Eq(u.rootType(c.Root(ref)), u.typeID(et)))
		}
		fc.vals[t] = leaf(ref)
	case *ssa.FieldAddr:
		x := u.val(fc, t.X).T
		pt := t.X.Type().Underlying().(*types.Pointer).Elem()
		stt := pt.Underlying().(*types.Struct)
		if !fc.spec && !nonNilSyntactic(t.X) {
			u.safety("nil", "field-"+fieldLabel(stt, t.Field), pc, c.Neq(x, c.Nil()), "nil dereference at ."+fieldLabel(stt, t.Field), t.Pos())
		}
		fc.vals[t] = leaf(c.Fld(x, u.e.lay.fieldID(pt, stt, t.Field)))
	case *ssa.Field:
		x := u.val(fc, t.X)
		fc.vals[t] = x.F[t.Field]
	case *ssa.IndexAddr:
		x := u.val(fc, t.X).T
		idx := u.val(fc, t.Index).T
		switch xt := t.X.Type().Underlying().(type) {
		case *types.Slice:
			if !fc.spec {
				u.safety("index", "slice", pc, c.And(c.Le(c.Int(0), idx), c.Lt(idx, c.SLen(x))), "index out of range", t.Pos())
			}
			fc.vals[t] = leaf(c.SElem(x, idx))
		case *types.Pointer:
			at := xt.Elem().Underlying().(*types.Array)
			if !fc.spec {
				u.safety("nil", "arrayptr", pc, c.Neq(x, c.Nil()), "nil array pointer", t.Pos())
				u.safety("index", "array", pc, c.And(c.Le(c.Int(0), idx), c.Lt(idx, c.Int(at.Len()))), "index out of range", t.Pos())
			}
			fc.vals[t] = leaf(c.Elm(x, idx))
		default:
			panic(unsupported("IndexAddr on %s", t.X.Type()))
		}
	case *ssa.Index:
		x := u.val(fc, t.X)
		idx := u.val(fc, t.Index).T
		switch t.X.Type().Underlying().(type) {
		case *types.Array:
			if iv, ok := idx.IntVal(); ok && iv.IsInt64() && int(iv.Int64()) < len(x.F) {
				fc.vals[t] = x.F[iv.Int64()]
			} else {
				panic(unsupported("symbolic index into array value"))
			}
		default: // string index
			if !fc.spec {
				u.safety("index", "string", pc, c.And(c.Le(c.Int(0), idx), c.Lt(idx, u.strLen(x.T))), "string index out of range", t.Pos())
			}
			f := c.Func("str_at", []*Sort{SStr, SInt}, SInt)
			r := c.App(f, x.T, idx)
			u.assume(pc, c.And(c.Le(c.Int(0), r), c.Le(r, c.Int(255))))
			fc.vals[t] = leaf(r)
		}
	case *ssa.UnOp:
		u.execUnOp(fc, st, pc, t)
	case *ssa.BinOp:
		x, y := u.val(fc, t.X), u.val(fc, t.Y)
		fc.vals[t] = u.binop(fc, pc, t.Op, x, y, t.X.Type(), t.Type(), t.Pos())
	case *ssa.Store:
		addr := u.val(fc, t.Addr).T
		v := u.val(fc, t.Val)
		et := t.Addr.Type().Underlying().(*types.Pointer).Elem()
		u.checkWrite(fc, st, pc, addr, et, t.Pos())
		u.store(st, addr, et, v)
	case *ssa.Phi:
		panic("phi in the middle of a block")
	case *ssa.Extract:
		fc.vals[t] = u.val(fc, t.Tuple).F[t.Index]
	case *ssa.ChangeType:
		fc.vals[t] = u.val(fc, t.X)
	case *ssa.Convert:
		fc.vals[t] = u.convert(fc, pc, u.val(fc, t.X), t.X.Type(), t.Type())
	case *ssa.ChangeInterface:
		fc.vals[t] = u.val(fc, t.X)
	case *ssa.MakeInterface:
		fc.vals[t] = leaf(u.makeIface(st, pc, u.val(fc, t.X), t.X.Type()))
	case *ssa.TypeAssert:
		u.typeAssert(fc, st, pc, t)
	case *ssa.MakeClosure:
		fn := t.Fn.(*ssa.Function)
		r := c.Fresh("closure_"+fn.Name(), SRef)
		u.assume(pc, c.And(c.Le(c.Int(1), c.Root(r)), c.Lt(c.Root(r), st.alloc)))
		cl := &closureVal{fn: fn}
		for _, b := range t.Bindings {
			cl.bindings = append(cl.bindings, u.val(fc, b))
		}
		u.closures[r] = cl
		fc.vals[t] = leaf(r)
	case *ssa.MakeMap:
		m := u.allocObj(st)
		mt := t.Type().Underlying().(*types.Map)
		ks := u.mapKeySort(mt)
		dk := "MD:" + ks.Name
		dom := u.heapGet(st, dk, ArraySort(SRef, ArraySort(ks, SBool)))
		st.heap[dk] = c.Store(dom, m, c.ConstArray(ArraySort(ks, SBool), c.False()))
		st.heap["ML:"+ks.Name] = c.Store(u.mapLenArr(st, ks), m, c.Int(0))
		fc.vals[t] = leaf(m)
	case *ssa.MakeSlice:
		ln := u.val(fc, t.Len).T
		cp := u.val(fc, t.Cap).T
		if !fc.spec {
			u.safety("index", "makeslice", pc, c.And(c.Le(c.Int(0), ln), c.Le(ln, cp)), "makeslice: len out of range", t.Pos())
		}
		arr := u.allocObj(st)
		u.assume(pc, c.Eq(u.rootType(c.Root(arr)), u.arrTypeID(t.Type().Underlying().(*types.Slice).Elem())))
		sl := c.MkSlice(arr, c.Int(0), ln, cp)
		u.zeroElems(st, pc, sl, t.Type().Underlying().(*types.Slice).Elem(), cp)
		fc.vals[t] = leaf(sl)
	case *ssa.Slice:
		u.execSlice(fc, st, pc, t)
	case *ssa.Lookup:
		u.execLookup(fc, st, pc, t)
	case *ssa.MapUpdate:
		u.execMapUpdate(fc, st, pc, t)
	case *ssa.Range:
		u.execRange(fc, st, pc, t)
	case *ssa.Next:
		u.execNext(fc, st, pc, t)
	case *ssa.Call:
		u.execCall(fc, st, pc, t)
	case *ssa.Defer:
		callee := t.Call.StaticCallee()
		if callee != nil && callee.Pkg != nil && callee.Pkg.Pkg.Path() == "sync" {
			u.warn("deferred sync.%s treated as no-op", callee.Name())
			return
		}
		panic(unsupported("defer of %v", t.Call.Value))
	case *ssa.RunDefers:
		return
	case *ssa.Send:
		u.warn("channel send not modelled (treated as no-op) in %s", fc.fn.Name())
	case *ssa.Go:
		panic(unsupported("go statement"))
	case *ssa.Select:
		panic(unsupported("select statement"))
	case *ssa.MakeChan:
		r := u.allocObj(st)
		fc.vals[t] = leaf(r)
	default:
		panic(unsupported("instruction %T", insn))
	}
}

type closureVal struct {
	fn       *ssa.Function
	bindings []*SV
}

func (u *Unit) execUnOp(fc *frameCtx, st *State, pc *Term, t *ssa.UnOp) {
	c := u.c
	x := u.val(fc, t.X)
	switch t.Op {
	case token.MUL: // load
		et := t.X.Type().Underlying().(*types.Pointer).Elem()
		if !fc.spec && !nonNilSyntactic(t.X) {
			u.safety("nil", "load", pc, c.Neq(x.T, c.Nil()), "nil pointer dereference", t.Pos())
		}
		if g, ok := t.X.(*ssa.Global); ok {
			if v := u.immutableGlobal(g, st, pc); v != nil {
				fc.vals[t] = v
				return
			}
		}
		fc.vals[t] = u.load(st, x.T, et, pc)
	case token.SUB:
		if x.T.Sort == SReal {
			fc.vals[t] = leaf(c.Neg(x.T))
		} else {
			fc.vals[t] = leaf(u.wrapIf(c.Neg(x.T), t.Type()))
		}
	case token.NOT:
		fc.vals[t] = leaf(c.Not(x.T))
	case token.XOR:
		f := c.Func("bv_not", []*Sort{SInt}, SInt)
		r := c.App(f, x.T)
		u.assumeTypeInv(r, t.Type(), st, pc)
		fc.vals[t] = leaf(r)
	case token.ARROW:
		u.warn("channel receive not modelled (havoc) in %s", fc.fn.Name())
		fc.vals[t] = u.freshSV("recv", t.Type(), st, pc)
	default:
		panic(unsupported("unop %s", t.Op))
	}
}

// immutableGlobal: package-level variables never stored to outside init are constants.
func (u *Unit) immutableGlobal(g *ssa.Global, st *State, pc *Term) *SV {
	if !u.e.globalImmutable(g) {
		return nil
	}
	et := g.Type().Underlying().(*types.Pointer).Elem()
	key := "gval|" + g.String()
	if v, ok := u.globalVals[key]; ok {
		return v
	}
	v := u.freshSV("gval_"+g.Name(), et, u.entry, nil)
	if u.e.globalNonNil(g) && v.T != nil && v.T.Sort == SRef {
		u.assume(nil, u.c.Neq(v.T, u.c.Nil()))
	}
	u.globalVals[key] = v
	return v
}

func (u *Unit) wrapIf(x *Term, t types.Type) *Term {
	if !u.arithWrap {
		return x
	}
	lo, hi, ok := intRange(t)
	if !ok {
		return x
	}
	c := u.c
	size := new(big.Int).Add(new(big.Int).Sub(hi, lo), big.NewInt(1))
	// ((x - lo) mod size) + lo
	return c.Add(c.EMod(c.Sub(x, c.BigInt(lo)), c.BigInt(size)), c.BigInt(lo))
}

func (u *Unit) binop(fc *frameCtx, pc *Term, op token.Token, x, y *SV, xt, rt types.Type, pos token.Pos) *SV {
	c := u.c
	switch op {
	case token.EQL:
		return leaf(u.eqValues(x, y))
	case token.NEQ:
		return leaf(c.Not(u.eqValues(x, y)))
	}
	a, b := x.T, y.T
	if a == nil || b == nil {
		panic(unsupported("binop %s on composite", op))
	}
	switch a.Sort {
	case SBool:
		switch op {
		case token.AND, token.LAND:
			return leaf(c.And(a, b))
		case token.OR, token.LOR:
			return leaf(c.Or(a, b))
		}
	case SStr:
		switch op {
		case token.ADD:
			f := c.Func("str_cat", []*Sort{SStr, SStr}, SStr)
			r := c.App(f, a, b)
			u.assume(pc, c.Eq(u.strLen(r), c.Add(u.strLen(a), u.strLen(b))))
			// the empty string is the only one of length 0 seen from here: ties r == "" to its length
			u.assume(nil, c.Eq(c.App(c.Func("str_len", []*Sort{SStr}, SInt), c.Str("")), c.Int(0)))
			u.assume(pc, c.And(c.Le(c.Int(0), u.strLen(a)), c.Le(c.Int(0), u.strLen(b))))
			return leaf(r)
		case token.LSS:
			return leaf(u.strLt(a, b))
		case token.GTR:
			return leaf(u.strLt(b, a))
		case token.LEQ:
			return leaf(c.Not(u.strLt(b, a)))
		case token.GEQ:
			return leaf(c.Not(u.strLt(a, b)))
		}
	case SReal:
		switch op {
		case token.ADD:
			return leaf(c.Add(a, b))
		case token.SUB:
			return leaf(c.Sub(a, b))
		case token.MUL:
			return leaf(c.Mul(a, b))
		case token.QUO:
			return leaf(c.mk("/", "", SReal, a, b))
		case token.LSS:
			return leaf(c.Lt(a, b))
		case token.LEQ:
			return leaf(c.Le(a, b))
		case token.GTR:
			return leaf(c.Gt(a, b))
		case token.GEQ:
			return leaf(c.Ge(a, b))
		}
	case SInt:
		switch op {
		case token.ADD:
			return leaf(u.wrapIf(c.Add(a, b), rt))
		case token.SUB:
			return leaf(u.wrapIf(c.Sub(a, b), rt))
		case token.MUL:
			return leaf(u.wrapIf(c.Mul(a, b), rt))
		case token.QUO:
			if !fc.spec {
				u.safety("divzero", "quo", pc, c.Neq(b, c.Int(0)), "integer division by zero", pos)
			}
			return leaf(u.wrapIf(c.GoDiv(a, b), rt))
		case token.REM:
			if !fc.spec {
				u.safety("divzero", "rem", pc, c.Neq(b, c.Int(0)), "integer remainder by zero", pos)
			}
			return leaf(c.GoRem(a, b))
		case token.LSS:
			return leaf(c.Lt(a, b))
		case token.LEQ:
			return leaf(c.Le(a, b))
		case token.GTR:
			return leaf(c.Gt(a, b))
		case token.GEQ:
			return leaf(c.Ge(a, b))
		case token.AND, token.OR, token.XOR, token.SHL, token.SHR, token.AND_NOT:
			f := c.Func("bv_"+sanitizeSym(op.String()), []*Sort{SInt, SInt}, SInt)
			r := c.App(f, a, b)
			if lo, hi, ok := intRange(rt); ok {
				u.assume(pc, c.And(c.Le(c.BigInt(lo), r), c.Le(r, c.BigInt(hi))))
			}
			return leaf(r)
		}
	}
	panic(unsupported("binop %s on %s", op, a.Sort.Name))
}

func (u *Unit) strLt(a, b *Term) *Term {
	c := u.c
	if a.Op == "strlit" && b.Op == "strlit" {
		return c.Bool(a.Name < b.Name)
	}
	f := c.Func("str_lt", []*Sort{SStr, SStr}, SBool)
	u.needStrOrder = true
	return c.App(f, a, b)
}

// eqValues compares leaves, or structs/arrays field-wise. Slices compare only to nil in Go.
func (u *Unit) eqValues(x, y *SV) *Term {
	c := u.c
	if x.T != nil && y.T != nil {
		if x.T.Sort == SSlice {
			// comparison with nil
			if y.T == c.NilSlice() {
				return c.Eq(c.SArr(x.T), c.Nil())
			}
			if x.T == c.NilSlice() {
				return c.Eq(c.SArr(y.T), c.Nil())
			}
		}
		return c.Eq(x.T, y.T)
	}
	return u.eqSV(x, y)
}

func (u *Unit) convert(fc *frameCtx, pc *Term, x *SV, from, to types.Type) *SV {
	c := u.c
	fs, ts := u.leafSort(from), u.leafSort(to)
	if fs == nil || ts == nil {
		panic(unsupported("convert %s -> %s", from, to))
	}
	switch {
	case fs == ts && fs == SInt:
		// narrowing conversions wrap in Go; mathematical mode keeps the value when it is in range
		if lo, hi, ok := intRange(to); ok {
			if flo, fhi, fok := intRange(from); fok && flo.Cmp(lo) >= 0 && fhi.Cmp(hi) <= 0 {
				return x
			}
			if u.arithWrap {
				return leaf(u.wrapIf(x.T, to))
			}
			in := c.And(c.Le(c.BigInt(lo), x.T), c.Le(x.T, c.BigInt(hi)))
			r := c.Fresh("conv", SInt)
			u.assume(pc, c.And(c.Le(c.BigInt(lo), r), c.Le(r, c.BigInt(hi)), c.Implies(in, c.Eq(r, x.T))))
			if in.IsTrue() {
				return x
			}
			return leaf(r)
		}
		return x
	case fs == ts:
		return x
	case fs == SInt && ts == SReal:
		return leaf(c.ToReal(x.T))
	case fs == SReal && ts == SInt:
		r := c.Fresh("f2i", SInt)
		if lo, hi, ok := intRange(to); ok {
			u.assume(pc, c.And(c.Le(c.BigInt(lo), r), c.Le(r, c.BigInt(hi))))
		}
		return leaf(r)
	case ts == SStr: // []byte / rune / int -> string
		f := c.Func("to_str_"+sanitizeSym(fs.Name), []*Sort{fs}, SStr)
		return leaf(c.App(f, x.T))
	case fs == SStr && ts == SSlice:
		r := c.Fresh("bytes", SSlice)
		return leaf(r)
	case fs == SRef && ts == SRef:
		return x
	}
	panic(unsupported("convert %s -> %s", from, to))
}

// ---- interfaces ----

func (u *Unit) typeID(t types.Type) *Term {
	name := t.String()
	id, ok := u.e.typeIDs[name]
	if !ok {
		id = len(u.e.typeIDs) + 1
		u.e.typeIDs[name] = id
	}
	return u.c.Int(int64(id))
}

func (u *Unit) ifaceFns() (ty, val *FuncDecl) {
	ty, val = u.c.Func("iface_type", []*Sort{SRef}, SInt), u.c.Func("iface_val", []*Sort{SRef}, SRef)
	if !u.ifaceNilDone {
		// the nil interface has no dynamic type (type ids start at 1)
		u.ifaceNilDone = true
		u.assume(nil, u.c.Eq(u.c.App(ty, u.c.Nil()), u.c.Int(0)))
	}
	return ty, val
}

func (u *Unit) makeIface(st *State, pc *Term, x *SV, t types.Type) *Term {
	c := u.c
	if _, isIface := t.Underlying().(*types.Interface); isIface {
		return x.T
	}
	var payload *Term
	if x.T != nil && x.T.Sort == SRef {
		payload = x.T
	} else {
		// box the value in a fresh immutable cell
		payload = u.allocObj(st)
		u.store(st, payload, t, x)
	}
	f := c.Func("mkiface", []*Sort{SInt, SRef}, SRef)
	r := c.App(f, u.typeID(t), payload)
	if u.ifaceStatic == nil {
		u.ifaceStatic = map[int]types.Type{}
	}
	u.ifaceStatic[r.id] = t
	ft, fv := u.ifaceFns()
	u.assume(pc, c.And(c.Neq(r, c.Nil()), c.Eq(c.App(ft, r), u.typeID(t)), c.Eq(c.App(fv, r), payload)))
	return r
}

func (u *Unit) typeAssert(fc *frameCtx, st *State, pc *Term, t *ssa.TypeAssert) {
	c := u.c
	x := u.val(fc, t.X).T
	ft, fv := u.ifaceFns()
	var ok *Term
	var v *SV
	if _, isIface := t.AssertedType.Underlying().(*types.Interface); isIface {
		okc := c.Fresh("implements", SBool)
		ok = c.And(c.Neq(x, c.Nil()), okc)
		v = leaf(x)
	} else {
		ok = c.And(c.Neq(x, c.Nil()), c.Eq(c.App(ft, x), u.typeID(t.AssertedType)))
		payload := c.App(fv, x)
		if s := u.leafSort(t.AssertedType); s == SRef {
			u.assumeTypeInv(payload, t.AssertedType, st, pc)
			v = leaf(payload)
		} else {
			v = u.load(st, payload, t.AssertedType, pc)
		}
	}
	if t.CommaOk {
		zero := u.zeroSV(t.AssertedType)
		fc.vals[t] = &SV{F: []*SV{u.iteSV(ok, v, zero), leaf(ok)}}
		return
	}
	if !fc.spec {
		u.safety("assert", "type", pc, ok, "type assertion may fail", t.Pos())
	}
	fc.vals[t] = v
}

// ---- slices ----

func (u *Unit) zeroElems(st *State, pc *Term, sl *Term, et types.Type, n *Term) {
	c := u.c
	if nv, ok := n.IntVal(); ok && nv.IsInt64() && nv.Int64() <= 8 {
		for i := int64(0); i < nv.Int64(); i++ {
			u.store(st, c.SElem(sl, c.Int(i)), et, u.zeroSV(et))
		}
		return
	}
	// quantified zero-initialisation, leaf by leaf
	i := c.BoundVar("zi", SInt)
	var locs []leafLoc
	u.leafAddrs(c.SElem(sl, i), et, &locs)
	for _, l := range locs {
		arr := u.heapArr(st, l.Sort)
		sel := c.mk("select", "", l.Sort, arr, l.Addr)
		u.assume(pc, c.Forall([]*Term{i}, c.Implies(c.And(c.Le(c.Int(0), i), c.Lt(i, n)), c.Eq(sel, u.zeroLeaf(l.Sort))), []*Term{sel}))
	}
}

func (u *Unit) execSlice(fc *frameCtx, st *State, pc *Term, t *ssa.Slice) {
	c := u.c
	x := u.val(fc, t.X).T
	var lo, hi, mx *Term
	if t.Low != nil {
		lo = u.val(fc, t.Low).T
	} else {
		lo = c.Int(0)
	}
	switch xt := t.X.Type().Underlying().(type) {
	case *types.Slice:
		if t.High != nil {
			hi = u.val(fc, t.High).T
		} else {
			hi = c.SLen(x)
		}
		if t.Max != nil {
			mx = u.val(fc, t.Max).T
		} else {
			mx = c.SCap(x)
		}
		if !fc.spec {
			u.safety("index", "reslice", pc, c.And(c.Le(c.Int(0), lo), c.Le(lo, hi), c.Le(hi, mx), c.Le(mx, c.SCap(x))), "slice bounds out of range", t.Pos())
		}
		fc.vals[t] = leaf(c.MkSlice(c.SArr(x), c.Add(c.SOff(x), lo), c.Sub(hi, lo), c.Sub(mx, lo)))
	case *types.Pointer:
		at := xt.Elem().Underlying().(*types.Array)
		n := c.Int(at.Len())
		if t.High != nil {
			hi = u.val(fc, t.High).T
		} else {
			hi = n
		}
		if t.Max != nil {
			mx = u.val(fc, t.Max).T
		} else {
			mx = n
		}
		if !fc.spec {
			u.safety("index", "reslice", pc, c.And(c.Le(c.Int(0), lo), c.Le(lo, hi), c.Le(hi, mx), c.Le(mx, n)), "slice bounds out of range", t.Pos())
		}
		fc.vals[t] = leaf(c.MkSlice(x, lo, c.Sub(hi, lo), c.Sub(mx, lo)))
	case *types.Basic: // string
		f := c.Func("str_sub", []*Sort{SStr, SInt, SInt}, SStr)
		if t.High != nil {
			hi = u.val(fc, t.High).T
		} else {
			hi = u.strLen(x)
		}
		if !fc.spec {
			u.safety("index", "substring", pc, c.And(c.Le(c.Int(0), lo), c.Le(lo, hi), c.Le(hi, u.strLen(x))), "string slice out of range", t.Pos())
		}
		r := c.App(f, x, lo, hi)
		u.assume(pc, c.Eq(u.strLen(r), c.Sub(hi, lo)))
		fc.vals[t] = leaf(r)
	default:
		panic(unsupported("slice of %s", t.X.Type()))
	}
}

// checkWrite enforces the declared frame of the unit and of enclosing loops for a write of type et at addr.
func (u *Unit) checkWrite(fc *frameCtx, st *State, pc *Term, addr *Term, et types.Type, pos token.Pos) {
	if fc.spec {
		// specification context works on a private copy of the state; transparent functions are separately
		// verified to write only memory they allocate themselves (frame/write obligations of their own unit)
		return
	}
	var locs []leafLoc
	u.leafAddrs(addr, et, &locs)
	u.checkWriteLocs(fc, pc, locs, pos)
}

func (u *Unit) allowedBy(fr *FrameSpec, bound *Term, l leafLoc) *Term {
	c := u.c
	if fr == nil || fr.Any {
		return c.True()
	}
	// addresses under nil are never written (the dereference panics first)
	alts := []*Term{c.Ge(c.Root(l.Addr), bound), c.Eq(c.Root(l.Addr), c.Int(0))}
	for _, r := range fr.Roots {
		alts = append(alts, c.Eq(c.Root(l.Addr), r))
	}
	for _, x := range fr.Leaves {
		if x.Sort == l.Sort {
			if x.Cond != nil {
				alts = append(alts, c.And(x.Cond, c.Eq(l.Addr, x.Addr)))
			} else {
				alts = append(alts, c.Eq(l.Addr, x.Addr))
			}
		}
	}
	return c.Or(alts...)
}

func (u *Unit) checkWriteLocs(fc *frameCtx, pc *Term, locs []leafLoc, pos token.Pos) {
	c := u.c
	// unit frame (applies to inlined callees too: their writes are this unit's writes)
	if u.frame != nil && !u.frame.Any {
		var props []*Term
		for _, l := range locs {
			props = append(props, u.allowedBy(u.frame, u.alloc0, l))
		}
		p := c.And(props...)
		if !p.IsTrue() {
			u.oblige("frame", "write", nil, pc, p, "write outside the declared modifies clause", pos)
		}
	}
	for _, al := range fc.active {
		if al.frame == nil || al.frame.Any {
			continue
		}
		var props []*Term
		for _, l := range locs {
			if al.frame.Kinds != nil && !al.frame.Kinds[heapKey(l.Sort)] {
				props = append(props, c.False())
				continue
			}
			props = append(props, u.allowedBy(al.frame, al.bound, l))
		}
		p := c.And(props...)
		if !p.IsTrue() {
			u.oblige("frame", fmt.Sprintf("loop%d-write", al.li.ordinal), nil, pc, p, "write outside the loop frame", pos)
		}
	}
}

// nonNilSyntactic: addresses derived from allocations, globals or other field addresses cannot be nil.
func nonNilSyntactic(v ssa.Value) bool {
	switch v.(type) {
	case *ssa.Alloc, *ssa.Global, *ssa.FieldAddr, *ssa.IndexAddr, *ssa.FreeVar:
		return true
	}
	return false
}
