package engine

import (
	"os"
	"fmt"
	"go/types"

	"golang.org/x/tools/go/ssa"
)

// Map model: a map value is a Ref; contents live in
//   MD:<K>            : Array Ref (Array K Bool)     domain
//   MV:<K>:<i>:<V>    : Array Ref (Array K V)        i-th leaf of the value type
//   ML:<K>            : Array Ref Int                ghost length, updated by insert/delete
// range enumerates mkeys(rangeId, 0..len-1) in an arbitrary duplicate-free order.

func (u *Unit) mapKeySort(mt *types.Map) *Sort {
	s := u.leafSort(mt.Key())
	if s == nil {
		panic(unsupported("map with composite key %s", mt.Key()))
	}
	return s
}

func (u *Unit) mapDom(st *State, ks *Sort) *Term {
	return u.heapGet(st, "MD:"+ks.Name, ArraySort(SRef, ArraySort(ks, SBool)))
}

type mapLeaf struct {
	key  string
	sort *Sort
}

func (u *Unit) mapValLeaves(mt *types.Map) []mapLeaf {
	ks := u.mapKeySort(mt)
	var sorts []*Sort
	var walk func(t types.Type)
	walk = func(t types.Type) {
		if s := u.leafSort(t); s != nil {
			sorts = append(sorts, s)
			return
		}
		switch tt := t.Underlying().(type) {
		case *types.Struct:
			for i := 0; i < tt.NumFields(); i++ {
				walk(tt.Field(i).Type())
			}
		default:
			panic(unsupported("map value type %s", t))
		}
	}
	walk(mt.Elem())
	var out []mapLeaf
	for i, s := range sorts {
		out = append(out, mapLeaf{fmt.Sprintf("MV:%s:%d:%s", ks.Name, i, s.Name), s})
	}
	return out
}

// rebuild an SV of type t from a flat list of leaves
func (u *Unit) unflatten(t types.Type, leaves []*Term, pos *int) *SV {
	if s := u.leafSort(t); s != nil {
		v := leaf(leaves[*pos])
		*pos++
		return v
	}
	st := t.Underlying().(*types.Struct)
	v := &SV{F: []*SV{}}
	for i := 0; i < st.NumFields(); i++ {
		v.F = append(v.F, u.unflatten(st.Field(i).Type(), leaves, pos))
	}
	return v
}

func (u *Unit) mapRead(st *State, pc *Term, mt *types.Map, m, k *Term) (val *SV, found *Term) {
	c := u.c
	ks := u.mapKeySort(mt)
	domArr := u.mapDom(st, ks)
	// the nil map is empty
	u.assume(nil, c.Eq(c.Select(domArr, c.Nil()), c.ConstArray(ArraySort(ks, SBool), c.False())))
	found = c.Select(c.Select(domArr, m), k)
	var leaves []*Term
	for _, ml := range u.mapValLeaves(mt) {
		arr := u.heapGet(st, ml.key, ArraySort(SRef, ArraySort(ks, ml.sort)))
		x := c.Select(c.Select(arr, m), k)
		leaves = append(leaves, c.Ite(found, x, u.zeroLeaf(ml.sort)))
	}
	p := 0
	val = u.unflatten(mt.Elem(), leaves, &p)
	// type invariants of stored values
	u.assumeLeafInvs(val, mt.Elem(), st, c.And(pc, found))
	if _, ok := mt.Key().Underlying().(*types.Pointer); ok && ks == SRef && os.Getenv("GOVC_NO_KEYINV") == "" {
		// a key held by a map is nil or a live object of the key type
		u.assumeTypeInv(k, mt.Key(), st, c.And(pc, found))
	}
	// a map that holds a key is not empty (ghost length vs domain)
	if !found.open && !m.open {
		u.assume(pc, c.Implies(found, c.Le(c.Int(1), c.Select(u.mapLenArr(st, ks), m))))
	}
	return val, found
}

func (u *Unit) assumeLeafInvs(v *SV, t types.Type, st *State, guard *Term) {
	if v.T != nil {
		u.assumeTypeInv(v.T, t, st, guard)
		return
	}
	if stt, ok := t.Underlying().(*types.Struct); ok {
		for i := range v.F {
			u.assumeLeafInvs(v.F[i], stt.Field(i).Type(), st, guard)
		}
	}
}

func (u *Unit) mapLenArr(st *State, ks *Sort) *Term {
	return u.heapGet(st, "ML:"+ks.Name, ArraySort(SRef, SInt))
}

// mapLen: len(m) is ghost state ML[m], kept in step with the domain by every insert and delete.
func (u *Unit) mapLen(st *State, mt *types.Map, m *Term) *Term {
	c := u.c
	ks := u.mapKeySort(mt)
	arr := u.mapLenArr(st, ks)
	n := c.Select(arr, m)
	u.assume(nil, c.Le(c.Int(0), n))
	u.assume(nil, c.Eq(c.Select(arr, c.Nil()), c.Int(0)))
	return n
}

func (u *Unit) execLookup(fc *frameCtx, st *State, pc *Term, t *ssa.Lookup) {
	c := u.c
	mt, ok := t.X.Type().Underlying().(*types.Map)
	if !ok {
		// string index
		x := u.val(fc, t.X).T
		idx := u.val(fc, t.Index).T
		f := c.Func("str_at", []*Sort{SStr, SInt}, SInt)
		fc.vals[t] = leaf(c.App(f, x, idx))
		return
	}
	m := u.val(fc, t.X).T
	k := u.val(fc, t.Index).T
	v, found := u.mapRead(st, pc, mt, m, k)
	if t.CommaOk {
		fc.vals[t] = &SV{F: []*SV{v, leaf(found)}}
	} else {
		fc.vals[t] = v
	}
}

func (u *Unit) mapWrite(fc *frameCtx, st *State, pc *Term, mt *types.Map, m, k *Term, v *SV, present bool) {
	c := u.c
	ks := u.mapKeySort(mt)
	// frame check: map contents are addressed by the map ref
	u.checkMapWrite(fc, pc, m)
	dk := "MD:" + ks.Name
	domArr := u.mapDom(st, ks)
	had := c.Select(c.Select(domArr, m), k)
	nd := c.Store(c.Select(domArr, m), k, c.Bool(present))
	st.heap[dk] = c.Store(domArr, m, nd)
	la := u.mapLenArr(st, ks)
	oldLen := c.Select(la, m)
	u.assume(nil, c.Le(c.Int(0), oldLen))
	var newLen *Term
	if present {
		newLen = c.Add(oldLen, c.Ite(had, c.Int(0), c.Int(1)))
	} else {
		newLen = c.Sub(oldLen, c.Ite(had, c.Int(1), c.Int(0)))
	}
	st.heap["ML:"+ks.Name] = c.Store(la, m, newLen)
	if present {
		leaves := v.leaves(nil)
		for i, ml := range u.mapValLeaves(mt) {
			arr := u.heapGet(st, ml.key, ArraySort(SRef, ArraySort(ks, ml.sort)))
			st.heap[ml.key] = c.Store(arr, m, c.Store(c.Select(arr, m), k, leaves[i]))
		}
	}
}

func (u *Unit) checkMapWrite(fc *frameCtx, pc *Term, m *Term) {
	c := u.c
	if fc.spec {
		return
	}
	allowed := func(fr *FrameSpec, bound *Term) *Term {
		if fr == nil || fr.Any {
			return c.True()
		}
		alts := []*Term{c.Ge(c.Root(m), bound), c.Eq(m, c.Nil())}
		for _, x := range fr.Maps {
			alts = append(alts, c.Eq(m, x))
		}
		return c.Or(alts...)
	}
	if p := allowed(u.frame, u.alloc0); !p.IsTrue() {
		u.oblige("frame", "mapwrite", nil, pc, p, "map write outside the declared modifies clause", 0)
	}
	for _, al := range fc.active {
		if p := allowed(al.frame, al.bound); !p.IsTrue() {
			u.oblige("frame", fmt.Sprintf("loop%d-mapwrite", al.li.ordinal), nil, pc, p, "map write outside the loop frame", 0)
		}
	}
}

func (u *Unit) execMapUpdate(fc *frameCtx, st *State, pc *Term, t *ssa.MapUpdate) {
	c := u.c
	mt := t.Map.Type().Underlying().(*types.Map)
	m := u.val(fc, t.Map).T
	u.safety("mapwrite", "nilmap", pc, c.Neq(m, c.Nil()), "assignment to entry in nil map", t.Pos())
	u.mapWrite(fc, st, pc, mt, m, u.val(fc, t.Key).T, u.val(fc, t.Value), true)
}

// ---- range over maps (and strings: unsupported) ----

func (u *Unit) mapEnumFns(ks *Sort) (keys, idx *FuncDecl) {
	c := u.c
	return c.Func("mkeys_"+sanitizeSym(ks.Name), []*Sort{SInt, SInt}, ks), c.Func("midx_"+sanitizeSym(ks.Name), []*Sort{SInt, ks}, SInt)
}

// enumAxioms: mkeys(id, 0..n) is a duplicate-free enumeration of dom (id identifies one execution of a range statement).
func (u *Unit) enumAxioms(ks *Sort, id, dom, n, guard *Term) {
	c := u.c
	keys, idx := u.mapEnumFns(ks)
	i := c.BoundVar("ei", SInt)
	ki := c.App(keys, id, i)
	u.assume(guard, c.Forall([]*Term{i},
		c.Implies(c.And(c.Le(c.Int(0), i), c.Lt(i, n)), c.And(c.Select(dom, ki), c.Eq(c.App(idx, id, ki), i))),
		[]*Term{ki}))
	k := c.BoundVar("ek", ks)
	ik := c.App(idx, id, k)
	u.assume(guard, c.Forall([]*Term{k},
		c.Implies(c.Select(dom, k), c.And(c.Le(c.Int(0), ik), c.Lt(ik, n), c.Eq(c.App(keys, id, ik), k))),
		[]*Term{ik}, []*Term{c.mk("select", "", SBool, dom, k)}))
}

func (u *Unit) execRange(fc *frameCtx, st *State, pc *Term, t *ssa.Range) {
	c := u.c
	mt, ok := t.X.Type().Underlying().(*types.Map)
	if !ok {
		panic(unsupported("range over %s", t.X.Type()))
	}
	m := u.val(fc, t.X).T
	ks := u.mapKeySort(mt)
	domArr := u.mapDom(st, ks)
	u.assume(nil, c.Eq(c.Select(domArr, c.Nil()), c.ConstArray(ArraySort(ks, SBool), c.False())))
	dom := c.Select(domArr, m)
	n := u.mapLen(st, mt, m)
	id := c.Fresh("rng", SInt)
	u.enumAxioms(ks, id, dom, n, pc)
	st.iters[t] = &iterState{m: m, dom: dom, pos: c.Int(0), kind: "map", mt: mt, id: id, n: n}
	fc.vals[t] = leaf(c.Nil())
}

func (u *Unit) execNext(fc *frameCtx, st *State, pc *Term, t *ssa.Next) {
	c := u.c
	it := st.iters[t.Iter]
	if it == nil {
		panic(unsupported("next on unknown iterator"))
	}
	ks := u.mapKeySort(it.mt)
	n := it.n
	ok := c.Lt(it.pos, n)
	keys, _ := u.mapEnumFns(ks)
	k := c.App(keys, it.id, it.pos)
	u.assumeTypeInv(k, it.mt.Key(), st, c.And(pc, ok))
	// ground instance of the enumeration axioms at the current position
	_, idxFn := u.mapEnumFns(ks)
	u.assume(c.And(pc, ok), c.And(c.Select(it.dom, k), c.Eq(c.App(idxFn, it.id, k), it.pos)))
	// value as currently stored (entries deleted during iteration would be skipped by Go; we require
	// that ranged-over maps are not mutated inside the loop: checked in loop analysis)
	v, _ := u.mapReadRaw(st, c.And(pc, ok), it.mt, it.m, k)
	ni := *it
	ni.pos = c.Ite(ok, c.Add(it.pos, c.Int(1)), it.pos)
	st.iters[t.Iter] = &ni
	fc.vals[t] = &SV{F: []*SV{leaf(ok), leaf(k), v}}
}

// mapReadRaw reads the stored value without the "absent => zero" wrapper (key known present).
func (u *Unit) mapReadRaw(st *State, guard *Term, mt *types.Map, m, k *Term) (*SV, *Term) {
	c := u.c
	ks := u.mapKeySort(mt)
	var leaves []*Term
	for _, ml := range u.mapValLeaves(mt) {
		arr := u.heapGet(st, ml.key, ArraySort(SRef, ArraySort(ks, ml.sort)))
		leaves = append(leaves, c.Select(c.Select(arr, m), k))
	}
	p := 0
	val := u.unflatten(mt.Elem(), leaves, &p)
	u.assumeLeafInvs(val, mt.Elem(), st, guard)
	return val, nil
}
