package engine

import (
	"fmt"
	"strings"
	"unicode"
)

// ---------------------------------------------------------------------------
// Contract language: AST, lexer, parser.
// ---------------------------------------------------------------------------

type Expr interface{ exprNode() }

type (
	EIdent  struct{ Name string }
	EInt    struct{ Val string }
	EStr    struct{ Val string }
	EBool   struct{ Val bool }
	ENil    struct{}
	EUnary  struct {
		Op string
		X  Expr
	}
	EBinary struct {
		Op   string
		X, Y Expr
	}
	ESel struct {
		X    Expr
		Name string
	}
	EIndex struct{ X, I Expr }
	ESliceE struct {
		X      Expr
		Lo, Hi Expr // may be nil
	}
	ECall struct {
		Fun  Expr
		Args []Expr
	}
	EQuant struct {
		Forall bool
		Vars   []Binder
		Body   Expr
	}
	EOld struct{ X Expr }
)

type Binder struct {
	Name string
	Type string // "int", "string", "bool", "ref", or Go type text like "*corev1.Pod"
}

func (*EIdent) exprNode()  {}
func (*EInt) exprNode()    {}
func (*EStr) exprNode()    {}
func (*EBool) exprNode()   {}
func (*ENil) exprNode()    {}
func (*EUnary) exprNode()  {}
func (*EBinary) exprNode() {}
func (*ESel) exprNode()    {}
func (*EIndex) exprNode()  {}
func (*ESliceE) exprNode() {}
func (*ECall) exprNode()   {}
func (*EQuant) exprNode()  {}
func (*EOld) exprNode()    {}

type tok struct {
	kind string // "id","int","str","op","eof"
	text string
	pos  int
}

func lexSpec(s string) ([]tok, error) {
	var out []tok
	i := 0
	for i < len(s) {
		c := rune(s[i])
		if unicode.IsSpace(c) {
			i++
			continue
		}
		start := i
		switch {
		case unicode.IsLetter(c) || c == '_' || c == '$':
			for i < len(s) && (unicode.IsLetter(rune(s[i])) || unicode.IsDigit(rune(s[i])) || s[i] == '_' || s[i] == '$') {
				i++
			}
			out = append(out, tok{"id", s[start:i], start})
		case unicode.IsDigit(c):
			for i < len(s) && (unicode.IsDigit(rune(s[i])) || s[i] == '_') {
				i++
			}
			out = append(out, tok{"int", strings.ReplaceAll(s[start:i], "_", ""), start})
		case c == '"':
			i++
			var b strings.Builder
			for i < len(s) && s[i] != '"' {
				if s[i] == '\\' && i+1 < len(s) {
					i++
					switch s[i] {
					case 'n':
						b.WriteByte('\n')
					case 't':
						b.WriteByte('\t')
					default:
						b.WriteByte(s[i])
					}
				} else {
					b.WriteByte(s[i])
				}
				i++
			}
			if i >= len(s) {
				return nil, fmt.Errorf("unterminated string at %d", start)
			}
			i++
			out = append(out, tok{"str", b.String(), start})
		default:
			ops := []string{"<==>", "==>", "::", "==", "!=", "<=", ">=", "&&", "||", "(", ")", "[", "]", ",", ".", "+", "-", "*", "/", "%", "<", ">", "!", "&", ":", "{", "}", "\\", "="}
			matched := false
			for _, op := range ops {
				if strings.HasPrefix(s[i:], op) {
					out = append(out, tok{"op", op, start})
					i += len(op)
					matched = true
					break
				}
			}
			if !matched {
				return nil, fmt.Errorf("unexpected character %q at %d in %q", c, i, s)
			}
		}
	}
	out = append(out, tok{"eof", "", len(s)})
	return out, nil
}

type specParser struct {
	toks []tok
	p    int
	src  string
}

func (p *specParser) peek() tok { return p.toks[p.p] }
func (p *specParser) next() tok {
	t := p.toks[p.p]
	if p.p < len(p.toks)-1 {
		p.p++
	}
	return t
}
func (p *specParser) isOp(s string) bool { t := p.peek(); return t.kind == "op" && t.text == s }
func (p *specParser) isID(s string) bool { t := p.peek(); return t.kind == "id" && t.text == s }
func (p *specParser) accept(s string) bool {
	if p.isOp(s) {
		p.next()
		return true
	}
	return false
}
func (p *specParser) expect(s string) error {
	if !p.accept(s) {
		return fmt.Errorf("expected %q at %d in %q (got %q)", s, p.peek().pos, p.src, p.peek().text)
	}
	return nil
}

func ParseExpr(src string) (Expr, error) {
	toks, err := lexSpec(src)
	if err != nil {
		return nil, err
	}
	p := &specParser{toks: toks, src: src}
	e, err := p.parseExpr()
	if err != nil {
		return nil, err
	}
	if p.peek().kind != "eof" {
		return nil, fmt.Errorf("trailing input at %d in %q", p.peek().pos, src)
	}
	return e, nil
}

func (p *specParser) parseExpr() (Expr, error) {
	if p.isID("forall") || p.isID("exists") {
		fa := p.next().text == "forall"
		var vars []Binder
		for {
			// names (comma separated) followed by a type
			var names []string
			for {
				t := p.next()
				if t.kind != "id" {
					return nil, fmt.Errorf("binder name expected in %q", p.src)
				}
				names = append(names, t.text)
				if p.isOp(",") {
					// lookahead: "i, j int" vs "i int, k string"
					p.next()
					continue
				}
				break
			}
			ty, err := p.parseTypeText()
			if err != nil {
				return nil, err
			}
			for _, n := range names {
				vars = append(vars, Binder{n, ty})
			}
			if p.accept(",") {
				continue
			}
			break
		}
		if err := p.expect("::"); err != nil {
			return nil, err
		}
		body, err := p.parseExpr()
		if err != nil {
			return nil, err
		}
		return &EQuant{Forall: fa, Vars: vars, Body: body}, nil
	}
	return p.parseIff()
}

func (p *specParser) parseTypeText() (string, error) {
	var b strings.Builder
	for p.isOp("*") || p.isOp("[") || p.isOp("]") {
		b.WriteString(p.next().text)
	}
	t := p.next()
	if t.kind != "id" {
		return "", fmt.Errorf("type expected at %d in %q", t.pos, p.src)
	}
	b.WriteString(t.text)
	if p.isOp(".") {
		p.next()
		t2 := p.next()
		b.WriteString("." + t2.text)
	}
	return b.String(), nil
}

func (p *specParser) parseIff() (Expr, error) {
	x, err := p.parseImp()
	if err != nil {
		return nil, err
	}
	for p.isOp("<==>") {
		p.next()
		y, err := p.parseImp()
		if err != nil {
			return nil, err
		}
		x = &EBinary{"<==>", x, y}
	}
	return x, nil
}

func (p *specParser) parseImp() (Expr, error) {
	x, err := p.parseOr()
	if err != nil {
		return nil, err
	}
	if p.isOp("==>") {
		p.next()
		var y Expr
		if p.isID("forall") || p.isID("exists") {
			y, err = p.parseExpr()
		} else {
			y, err = p.parseImp()
		}
		if err != nil {
			return nil, err
		}
		return &EBinary{"==>", x, y}, nil
	}
	return x, nil
}

func (p *specParser) parseOr() (Expr, error) {
	x, err := p.parseAnd()
	if err != nil {
		return nil, err
	}
	for p.isOp("||") {
		p.next()
		var y Expr
		var err error
		if p.isID("forall") || p.isID("exists") {
			y, err = p.parseExpr()
		} else {
			y, err = p.parseAnd()
		}
		if err != nil {
			return nil, err
		}
		x = &EBinary{"||", x, y}
	}
	return x, nil
}

func (p *specParser) parseAnd() (Expr, error) {
	x, err := p.parseCmp()
	if err != nil {
		return nil, err
	}
	for p.isOp("&&") {
		p.next()
		var y Expr
		if p.isID("forall") || p.isID("exists") {
			y, err = p.parseExpr()
		} else {
			y, err = p.parseCmp()
		}
		if err != nil {
			return nil, err
		}
		x = &EBinary{"&&", x, y}
	}
	return x, nil
}

func (p *specParser) parseCmp() (Expr, error) {
	x, err := p.parseAdd()
	if err != nil {
		return nil, err
	}
	for {
		t := p.peek()
		if t.kind == "op" && (t.text == "==" || t.text == "!=" || t.text == "<" || t.text == "<=" || t.text == ">" || t.text == ">=") {
			p.next()
			y, err := p.parseAdd()
			if err != nil {
				return nil, err
			}
			x = &EBinary{t.text, x, y}
			continue
		}
		if t.kind == "id" && t.text == "in" {
			p.next()
			y, err := p.parseAdd()
			if err != nil {
				return nil, err
			}
			x = &EBinary{"in", x, y}
			continue
		}
		return x, nil
	}
}

func (p *specParser) parseAdd() (Expr, error) {
	x, err := p.parseMul()
	if err != nil {
		return nil, err
	}
	for p.isOp("+") || p.isOp("-") {
		op := p.next().text
		y, err := p.parseMul()
		if err != nil {
			return nil, err
		}
		x = &EBinary{op, x, y}
	}
	return x, nil
}

func (p *specParser) parseMul() (Expr, error) {
	x, err := p.parseUnary()
	if err != nil {
		return nil, err
	}
	for p.isOp("*") || p.isOp("/") || p.isOp("%") {
		op := p.next().text
		y, err := p.parseUnary()
		if err != nil {
			return nil, err
		}
		x = &EBinary{op, x, y}
	}
	return x, nil
}

func (p *specParser) parseUnary() (Expr, error) {
	if p.isOp("!") || p.isOp("-") || p.isOp("*") || p.isOp("&") {
		op := p.next().text
		x, err := p.parseUnary()
		if err != nil {
			return nil, err
		}
		return &EUnary{op, x}, nil
	}
	return p.parsePostfix()
}

func (p *specParser) parsePostfix() (Expr, error) {
	x, err := p.parsePrimary()
	if err != nil {
		return nil, err
	}
	for {
		switch {
		case p.isOp("."):
			p.next()
			t := p.next()
			if t.kind != "id" {
				return nil, fmt.Errorf("field name expected at %d in %q", t.pos, p.src)
			}
			x = &ESel{x, t.text}
		case p.isOp("["):
			p.next()
			if p.isOp(":") {
				p.next()
				var hi Expr
				if !p.isOp("]") {
					hi, err = p.parseExpr()
					if err != nil {
						return nil, err
					}
				}
				if err := p.expect("]"); err != nil {
					return nil, err
				}
				x = &ESliceE{x, nil, hi}
				continue
			}
			i, err := p.parseExpr()
			if err != nil {
				return nil, err
			}
			if p.isOp(":") {
				p.next()
				var hi Expr
				if !p.isOp("]") {
					hi, err = p.parseExpr()
					if err != nil {
						return nil, err
					}
				}
				if err := p.expect("]"); err != nil {
					return nil, err
				}
				x = &ESliceE{x, i, hi}
				continue
			}
			if err := p.expect("]"); err != nil {
				return nil, err
			}
			x = &EIndex{x, i}
		case p.isOp("("):
			p.next()
			var args []Expr
			for !p.isOp(")") {
				a, err := p.parseExpr()
				if err != nil {
					return nil, err
				}
				args = append(args, a)
				if !p.accept(",") {
					break
				}
			}
			if err := p.expect(")"); err != nil {
				return nil, err
			}
			if id, ok := x.(*EIdent); ok && id.Name == "old" && len(args) == 1 {
				x = &EOld{args[0]}
			} else {
				x = &ECall{x, args}
			}
		default:
			return x, nil
		}
	}
}

func (p *specParser) parsePrimary() (Expr, error) {
	t := p.next()
	switch t.kind {
	case "int":
		return &EInt{t.text}, nil
	case "str":
		return &EStr{t.text}, nil
	case "id":
		switch t.text {
		case "true":
			return &EBool{true}, nil
		case "false":
			return &EBool{false}, nil
		case "nil":
			return &ENil{}, nil
		}
		return &EIdent{t.text}, nil
	case "op":
		if t.text == "(" {
			e, err := p.parseExpr()
			if err != nil {
				return nil, err
			}
			if err := p.expect(")"); err != nil {
				return nil, err
			}
			return e, nil
		}
	}
	return nil, fmt.Errorf("unexpected token %q at %d in %q", t.text, t.pos, p.src)
}

// ---------------------------------------------------------------------------
// Contract files
// ---------------------------------------------------------------------------

type Clause struct {
	Kind  string   // requires, ensures, invariant, decreases
	Tags  []string // property ids
	Label string
	Src   string
	E     Expr
	Loop  int // loop ordinal for invariant/decreases
	Line  string
}

type LoopContract struct {
	Ordinal    int
	Invariants []*Clause
	Decreases  *Clause
	Modifies   []Expr // extra roots written by the loop
	HavocAll   bool
}

type Contract struct {
	Func        string // key: "Name", "(*T).Name", "T.Name", "pkgpath.Name" for externals
	Display     string // stable name used in obligation names when Func was given as an alias ("outer@string")
	PkgPath     string
	Pure        bool
	Transparent bool
	Trusted     bool
	ArithWrap   bool
	Logs        bool // may perform API calls (extends the ghost call log)
	NoHeap      bool // external: does not touch the heap at all (results havocked)
	DeepTree    bool // precise tree model of generated DeepCopy calls inside this unit
	Requires    []*Clause
	Ensures     []*Clause
	Modifies    []Expr // location expressions; nil + !ModAny = modifies nothing visible
	ModAny      bool   // no modifies clause given => conservative for non-pure functions
	HasModifies bool
	Reads       []string
	ReadLocs    []Expr // location footprint of a pure function (frame axiom between heap versions)
	Loops       map[int]*LoopContract
	Lets        []LetDef
	Params      []string // optional explicit parameter names (externals)
	Source      string   // file it came from
	External    bool
	Tags        map[string]bool
	file        *ContractFile
}

type LetDef struct {
	Name string
	E    Expr
}

type SpecFn struct {
	Name    string
	Params  []Binder
	Ret     string
	Body    Expr // nil = uninterpreted
	PkgPath string
}

type Lemma struct {
	Name     string
	Tags     []string
	Params   []Binder
	Requires []*Clause
	Ensures  []*Clause
	Lets     []LetDef
	PkgPath  string
	Source   string
	file     *ContractFile
}

type ContractFile struct {
	Path      string
	PkgPath   string
	Imports   map[string]string // alias -> path
	Contracts []*Contract
	SpecFns   []*SpecFn
	Lemmas    []*Lemma
}

var clauseKeywords = map[string]bool{
	"import": true, "func": true, "pure": true, "transparent": true, "trusted": true, "arith": true,
	"requires": true, "ensures": true, "modifies": true, "loop": true, "let": true, "spec": true,
	"lemma": true, "reads": true, "noheap": true, "logs": true, "deepcopy-tree": true, "params": true, "end": true,
}

// parseTagsLabel strips an optional "[C01,C02]" and an optional "label:" prefix.
func parseTagsLabel(s string) (tags []string, label, rest string) {
	s = strings.TrimSpace(s)
	if strings.HasPrefix(s, "[") {
		if j := strings.Index(s, "]"); j > 0 {
			inner := s[1:j]
			ok := true
			for _, t := range strings.Split(inner, ",") {
				t = strings.TrimSpace(t)
				if len(t) < 2 || t[0] != 'C' {
					ok = false
				}
			}
			if ok {
				for _, t := range strings.Split(inner, ",") {
					tags = append(tags, strings.TrimSpace(t))
				}
				s = strings.TrimSpace(s[j+1:])
			}
		}
	}
	// label: identifier (with - or _) followed by ':' but not '::'
	for i := 0; i < len(s); i++ {
		ch := s[i]
		if ch == ':' {
			if i > 0 && (i+1 >= len(s) || s[i+1] != ':') {
				label = s[:i]
				s = strings.TrimSpace(s[i+1:])
			}
			break
		}
		if !(ch >= 'a' && ch <= 'z' || ch >= 'A' && ch <= 'Z' || ch >= '0' && ch <= '9' || ch == '-' || ch == '_') {
			break
		}
	}
	return tags, label, s
}

// ParseContractText parses the //@ lines of one file.
func ParseContractText(path, pkgPath, text string, external bool) (*ContractFile, error) {
	cf := &ContractFile{Path: path, PkgPath: pkgPath, Imports: map[string]string{}}
	// gather logical clauses
	var clauses []string
	for _, line := range strings.Split(text, "\n") {
		l := strings.TrimSpace(line)
		if external {
			if strings.HasPrefix(l, "#") || l == "" {
				continue
			}
		} else {
			if !strings.HasPrefix(l, "//@") {
				continue
			}
			l = strings.TrimSpace(l[3:])
			if l == "" {
				continue
			}
		}
		if i := strings.Index(l, " //"); i >= 0 && !strings.Contains(l[:i], "\"") {
			l = strings.TrimSpace(l[:i])
		}
		first := l
		if i := strings.IndexAny(l, " \t"); i > 0 {
			first = l[:i]
		}
		if clauseKeywords[first] || len(clauses) == 0 {
			clauses = append(clauses, l)
		} else {
			clauses[len(clauses)-1] += " " + l
		}
	}
	var cur *Contract
	var curLemma *Lemma
	for _, cl := range clauses {
		kw, rest := cl, ""
		if i := strings.IndexAny(cl, " \t"); i > 0 {
			kw, rest = cl[:i], strings.TrimSpace(cl[i+1:])
		}
		fail := func(err error) error { return fmt.Errorf("%s: clause %q: %v", path, cl, err) }
		switch kw {
		case "import":
			parts := strings.Fields(rest)
			if len(parts) != 2 {
				return nil, fail(fmt.Errorf("import alias \"path\""))
			}
			cf.Imports[parts[0]] = strings.Trim(parts[1], "\"")
		case "func":
			cur = &Contract{Func: rest, PkgPath: pkgPath, Loops: map[int]*LoopContract{}, ModAny: true, Source: path, External: external, Tags: map[string]bool{}}
			curLemma = nil
			cf.Contracts = append(cf.Contracts, cur)
		case "end":
			cur, curLemma = nil, nil
		case "pure":
			if cur == nil {
				return nil, fail(fmt.Errorf("no func"))
			}
			cur.Pure = true
			cur.ModAny = false
		case "transparent":
			cur.Transparent = true
			if !cur.HasModifies {
				cur.ModAny = false
			}
		case "trusted":
			cur.Trusted = true
		case "logs":
			cur.Logs = true
		case "deepcopy-tree":
			// model generated DeepCopy precisely: nested objects the model does not descend into live in a reserved
			// block of newly allocated roots (costs a symbolic allocation counter after every copy)
			cur.DeepTree = true
		case "noheap":
			cur.NoHeap = true
			cur.ModAny = false
		case "arith":
			if rest == "wrap" {
				cur.ArithWrap = true
			}
		case "params":
			cur.Params = strings.Fields(strings.ReplaceAll(rest, ",", " "))
		case "reads":
			// kinds (Int, Str, Ref, Slice, Bool, nothing, MD:Str ...) or location expressions (*p, p.f, ...)
			for _, part := range splitTopLevel(strings.ReplaceAll(rest, " ", ",")) {
				if part == "" {
					continue
				}
				if isKindName(part) {
					cur.Reads = append(cur.Reads, part)
					if cur.Reads == nil {
						cur.Reads = []string{}
					}
					continue
				}
				e, err := ParseExpr(part)
				if err != nil {
					return nil, fail(err)
				}
				cur.ReadLocs = append(cur.ReadLocs, e)
			}
			if cur.Reads == nil && len(cur.ReadLocs) == 0 {
				cur.Reads = []string{}
			}
		case "requires", "ensures":
			tags, label, src := parseTagsLabel(rest)
			e, err := ParseExpr(src)
			if err != nil {
				return nil, fail(err)
			}
			c := &Clause{Kind: kw, Tags: tags, Label: label, Src: src, E: e, Line: cl}
			if curLemma != nil {
				if kw == "requires" {
					curLemma.Requires = append(curLemma.Requires, c)
				} else {
					curLemma.Ensures = append(curLemma.Ensures, c)
				}
				break
			}
			if cur == nil {
				return nil, fail(fmt.Errorf("no func"))
			}
			if kw == "requires" {
				cur.Requires = append(cur.Requires, c)
			} else {
				cur.Ensures = append(cur.Ensures, c)
			}
			for _, t := range tags {
				cur.Tags[t] = true
			}
		case "modifies":
			if cur == nil {
				return nil, fail(fmt.Errorf("no func"))
			}
			cur.HasModifies = true
			cur.ModAny = false
			if rest == "nothing" {
				break
			}
			if rest == "*" {
				cur.ModAny = true
				break
			}
			for _, part := range splitTopLevel(rest) {
				e, err := ParseExpr(part)
				if err != nil {
					return nil, fail(err)
				}
				cur.Modifies = append(cur.Modifies, e)
			}
		case "let":
			i := strings.Index(rest, "=")
			if i < 0 {
				return nil, fail(fmt.Errorf("let name = expr"))
			}
			e, err := ParseExpr(strings.TrimSpace(rest[i+1:]))
			if err != nil {
				return nil, fail(err)
			}
			ld := LetDef{strings.TrimSpace(rest[:i]), e}
			if curLemma != nil {
				curLemma.Lets = append(curLemma.Lets, ld)
			} else if cur != nil {
				cur.Lets = append(cur.Lets, ld)
			}
		case "loop":
			parts := strings.SplitN(rest, " ", 3)
			if len(parts) < 2 {
				return nil, fail(fmt.Errorf("loop N kind ..."))
			}
			var n int
			if _, err := fmt.Sscanf(parts[0], "%d", &n); err != nil {
				return nil, fail(err)
			}
			lc := cur.Loops[n]
			if lc == nil {
				lc = &LoopContract{Ordinal: n}
				cur.Loops[n] = lc
			}
			arg := ""
			if len(parts) == 3 {
				arg = parts[2]
			}
			switch parts[1] {
			case "invariant":
				tags, label, src := parseTagsLabel(arg)
				e, err := ParseExpr(src)
				if err != nil {
					return nil, fail(err)
				}
				lc.Invariants = append(lc.Invariants, &Clause{Kind: "invariant", Tags: tags, Label: label, Src: src, E: e, Loop: n, Line: cl})
			case "decreases":
				e, err := ParseExpr(arg)
				if err != nil {
					return nil, fail(err)
				}
				lc.Decreases = &Clause{Kind: "decreases", Src: arg, E: e, Loop: n, Line: cl}
			case "modifies":
				if arg == "*" {
					lc.HavocAll = true
					break
				}
				for _, part := range splitTopLevel(arg) {
					e, err := ParseExpr(part)
					if err != nil {
						return nil, fail(err)
					}
					lc.Modifies = append(lc.Modifies, e)
				}
			default:
				return nil, fail(fmt.Errorf("unknown loop clause %q", parts[1]))
			}
		case "spec":
			// spec fn name(a int, b string) int = expr
			r := strings.TrimSpace(strings.TrimPrefix(rest, "fn"))
			sf, err := parseSpecFn(r)
			if err != nil {
				return nil, fail(err)
			}
			sf.PkgPath = pkgPath
			cf.SpecFns = append(cf.SpecFns, sf)
		case "lemma":
			tags, _, r := parseTagsLabel(rest)
			i := strings.Index(r, "(")
			j := strings.LastIndex(r, ")")
			if i < 0 || j < i {
				return nil, fail(fmt.Errorf("lemma name(params)"))
			}
			bs, err := parseBinders(r[i+1 : j])
			if err != nil {
				return nil, fail(err)
			}
			curLemma = &Lemma{Name: strings.TrimSpace(r[:i]), Tags: tags, Params: bs, PkgPath: pkgPath, Source: path}
			cur = nil
			cf.Lemmas = append(cf.Lemmas, curLemma)
		default:
			return nil, fail(fmt.Errorf("unknown keyword %q", kw))
		}
	}
	return cf, nil
}

func splitTopLevel(s string) []string {
	var out []string
	depth := 0
	start := 0
	for i, c := range s {
		switch c {
		case '(', '[':
			depth++
		case ')', ']':
			depth--
		case ',':
			if depth == 0 {
				out = append(out, strings.TrimSpace(s[start:i]))
				start = i + 1
			}
		}
	}
	if strings.TrimSpace(s[start:]) != "" {
		out = append(out, strings.TrimSpace(s[start:]))
	}
	return out
}

func parseBinders(s string) ([]Binder, error) {
	var out []Binder
	var pending []string
	for _, part := range splitTopLevel(s) {
		f := strings.Fields(part)
		switch len(f) {
		case 1:
			pending = append(pending, f[0])
		case 2:
			for _, n := range pending {
				out = append(out, Binder{n, f[1]})
			}
			pending = nil
			out = append(out, Binder{f[0], f[1]})
		default:
			return nil, fmt.Errorf("bad binder %q", part)
		}
	}
	if len(pending) > 0 {
		return nil, fmt.Errorf("binder without type: %v", pending)
	}
	return out, nil
}

func parseSpecFn(r string) (*SpecFn, error) {
	i := strings.Index(r, "(")
	if i < 0 {
		return nil, fmt.Errorf("spec fn name(params) type [= expr]")
	}
	depth := 0
	j := -1
	for k := i; k < len(r); k++ {
		if r[k] == '(' {
			depth++
		} else if r[k] == ')' {
			depth--
			if depth == 0 {
				j = k
				break
			}
		}
	}
	if j < 0 {
		return nil, fmt.Errorf("unbalanced parens")
	}
	bs, err := parseBinders(r[i+1 : j])
	if err != nil {
		return nil, err
	}
	sf := &SpecFn{Name: strings.TrimSpace(r[:i]), Params: bs}
	tail := strings.TrimSpace(r[j+1:])
	if k := strings.Index(tail, "="); k >= 0 {
		sf.Ret = strings.TrimSpace(tail[:k])
		e, err := ParseExpr(strings.TrimSpace(tail[k+1:]))
		if err != nil {
			return nil, err
		}
		sf.Body = e
	} else {
		sf.Ret = tail
	}
	if sf.Ret == "" {
		return nil, fmt.Errorf("spec fn needs a result type")
	}
	return sf, nil
}

func isKindName(s string) bool {
	switch s {
	case "Int", "Str", "Ref", "Slice", "Bool", "Real", "nothing":
		return true
	}
	return strings.Contains(s, ":") || strings.HasPrefix(s, "Opq")
}
