package main

import (
	"flag"
	"fmt"
	"os"

	"govc/internal/engine"
)

func usage() {
	fmt.Fprintln(os.Stderr, `usage: govc <command> [flags]
  check <PROP> [--tier quick|thorough]   decide one property
  unit <function-substring>              debug: verify matching functions under contract
  replay <file>                          re-run a replay file
  selfcheck                              engine self test corpus
  ledger --update [PROP...]              rewrite the baseline ledger`)
	os.Exit(2)
}

func main() {
	if len(os.Args) < 2 {
		usage()
	}
	cmd := os.Args[1]
	fs := flag.NewFlagSet(cmd, flag.ExitOnError)
	repo := fs.String("repo", envOr("GOVC_REPO", "/repo"), "repository under verification")
	verif := fs.String("verif", envOr("GOVC_VERIF", "/verif"), "verification directory")
	tier := fs.String("tier", envOr("VERIF_TIER", "quick"), "quick or thorough")
	update := fs.Bool("update", false, "ledger: rewrite")
	verbose := fs.Bool("v", false, "verbose")
	keep := fs.Bool("keep", false, "keep SMT files of proved obligations")
	var pos []string
	args := os.Args[2:]
	// allow flags after positionals
	for len(args) > 0 {
		fs.Parse(args)
		args = fs.Args()
		if len(args) > 0 {
			pos = append(pos, args[0])
			args = args[1:]
		}
	}
	opts := engine.Options{Repo: *repo, Verif: *verif, Tier: *tier, Verbose: *verbose, Keep: *keep}
	switch cmd {
	case "check":
		if len(pos) != 1 {
			usage()
		}
		os.Exit(engine.CmdCheck(opts, pos[0]))
	case "unit":
		if len(pos) < 1 {
			usage()
		}
		os.Exit(engine.CmdUnit(opts, pos))
	case "replay":
		if len(pos) != 1 {
			usage()
		}
		os.Exit(engine.CmdReplay(opts, pos[0]))
	case "selfcheck":
		os.Exit(engine.CmdSelfcheck(opts))
	case "ledger":
		os.Exit(engine.CmdLedger(opts, *update, pos))
	default:
		usage()
	}
}

func envOr(k, d string) string {
	if v := os.Getenv(k); v != "" {
		return v
	}
	return d
}
