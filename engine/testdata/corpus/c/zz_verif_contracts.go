//go:build verif

package c

//@ func Abs
//@   pure
//@   ensures ok_nonneg: result >= 0
//@   ensures ok_value: result == x || result == 0 - x
//@   ensures bad_positive: result > 0
//@ func AbsWrong
//@   pure
//@   ensures bad_nonneg: result >= 0
//@ func SumTo
//@   pure
//@   requires n >= 0
//@   ensures ok_formula: 2 * result == n * (n - 1)
//@   loop 1 invariant 0 <= i && i <= n && 2 * s == i * (i - 1)
//@ func Deref
//@   pure
//@   requires p != nil
//@   ensures ok_field: result == p.X
//@ func DerefUnsafe
//@   pure
//@ func DivUnsafe
//@   pure
//@ func Index
//@   pure
//@   ensures ok_inrange: 0 <= i && i < len(s) ==> result == s[i]
//@   ensures bad_always: result == s[i]
//@ func IndexUnsafe
//@   pure
//@ func SetX
//@   requires p != nil
//@   modifies p.X
//@   ensures ok_set: p.X == v
//@   ensures ok_frame: p.Next == old(p.Next)
//@ func SetXWrongFrame
//@   requires p != nil && q != nil
//@   modifies p.X
//@   ensures ok_set: p.X == v
//@ func CountPositive
//@   pure
//@   ensures ok_bounds: 0 <= result && result <= len(s)
//@   ensures bad_all: result == len(s)
//@   loop 1 invariant 0 <= n && n <= iter() && iter() <= len(s)
//@ func FirstKey
//@   pure
//@   ensures ok_member: len(m) > 0 ==> (result in m)
//@   ensures bad_order: ("a" in m) ==> result == "a"
//@ func AppendOne
//@   modifies elems(s)
//@   ensures ok_len: len(result) == len(s) + 1
//@   ensures ok_last: result[len(s)] == v
//@   ensures ok_prefix: forall j int :: 0 <= j && j < len(s) ==> result[j] == old(s[j])
//@   ensures bad_same_backing: root(result) == root(s)
//@ func MapPut
//@   requires m != nil
//@   modifies mapof(m)
//@   ensures ok_present: (k in m) && m[k] == 1
//@   ensures ok_len: len(m) == old(len(m)) || len(m) == old(len(m)) + 1
//@   ensures bad_grows: len(m) == old(len(m)) + 1
//@ func MapPutUnsafe
//@   modifies mapof(m)
