// Package c is the engine's self-test corpus: tiny functions with correct and deliberately wrong contracts/bodies.
package c

type T struct {
	X    int
	Next *T
	S    []int
}

func Abs(x int) int {
	if x < 0 {
		return -x
	}
	return x
}

func AbsWrong(x int) int {
	if x < 0 {
		return x // bug: forgot the negation
	}
	return x
}

func SumTo(n int) int {
	s := 0
	for i := 0; i < n; i++ {
		s += i
	}
	return s
}

func Deref(p *T) int { return p.X }

func DerefUnsafe(p *T) int { return p.X }

func DivUnsafe(a, b int) int { return a / b }

func Index(s []int, i int) int {
	if i < 0 || i >= len(s) {
		return 0
	}
	return s[i]
}

func IndexUnsafe(s []int, i int) int { return s[i] }

func SetX(p *T, v int) { p.X = v }

func SetXWrongFrame(p, q *T, v int) { p.X = v; q.X = v }

func CountPositive(s []int) int {
	n := 0
	for _, v := range s {
		if v > 0 {
			n++
		}
	}
	return n
}

func FirstKey(m map[string]int) string {
	for k := range m {
		return k
	}
	return ""
}

func AppendOne(s []int, v int) []int { return append(s, v) }

func MapPut(m map[string]int, k string) { m[k] = 1 }

func MapPutUnsafe(m map[string]int, k string) { m[k] = 1 }
