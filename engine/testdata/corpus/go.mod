module corpus

go 1.22
