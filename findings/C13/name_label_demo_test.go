package extendeddaemonset

// Demonstration for the C13/C12 finding (hand-written, run with `go test -overlay`): an ExtendedDaemonSet that itself
// carries the label extendeddaemonset.datadoghq.com/name (with another value) gets replica sets labelled with that
// other value, so the selector the controller uses to find its replica sets never matches them: every reconcile
// creates one more replica set for the same template, and the replica sets are attributed to another ExtendedDaemonSet.

import (
	"context"
	"testing"

	corev1 "k8s.io/api/core/v1"
	"k8s.io/apimachinery/pkg/labels"
	"k8s.io/client-go/kubernetes/scheme"
	"k8s.io/client-go/tools/record"
	"sigs.k8s.io/controller-runtime/pkg/client"
	"sigs.k8s.io/controller-runtime/pkg/client/fake"

	datadoghqv1alpha1 "github.com/DataDog/extendeddaemonset/api/v1alpha1"
	"github.com/DataDog/extendeddaemonset/api/v1alpha1/test"
)

func TestVerifFindingC13NameLabel(t *testing.T) {
	s := scheme.Scheme
	s.AddKnownTypes(datadoghqv1alpha1.GroupVersion, &datadoghqv1alpha1.ExtendedDaemonSetReplicaSet{}, &datadoghqv1alpha1.ExtendedDaemonSetReplicaSetList{})
	s.AddKnownTypes(datadoghqv1alpha1.GroupVersion, &datadoghqv1alpha1.ExtendedDaemonSet{})
	eds := test.NewExtendedDaemonSet("ns", "mine", &test.NewExtendedDaemonSetOptions{
		Labels: map[string]string{datadoghqv1alpha1.ExtendedDaemonSetNameLabelKey: "other"},
	})
	rs, err := newReplicaSetFromInstance(eds)
	if err != nil {
		t.Fatal(err)
	}
	if got := rs.Labels[datadoghqv1alpha1.ExtendedDaemonSetNameLabelKey]; got != eds.Name {
		t.Errorf("replica set of %q is labelled as belonging to %q", eds.Name, got)
	}

	c := fake.NewClientBuilder().WithScheme(s).Build()
	r := &Reconciler{client: c, scheme: s, log: testLogger, recorder: record.NewBroadcaster().NewRecorder(s, corev1.EventSource{Component: "demo"})}
	for i := 0; i < 2; i++ {
		// what Reconcile does when its selector finds no replica set matching spec.template
		mine := &datadoghqv1alpha1.ExtendedDaemonSetReplicaSetList{}
		sel := labels.SelectorFromSet(labels.Set{datadoghqv1alpha1.ExtendedDaemonSetNameLabelKey: eds.Name})
		if err := c.List(context.TODO(), mine, &client.ListOptions{LabelSelector: sel, Namespace: eds.Namespace}); err != nil {
			t.Fatal(err)
		}
		if len(mine.Items) == 0 {
			if _, err := r.createNewReplicaSet(testLogger, eds, podsCounterType{}); err != nil {
				t.Fatal(err)
			}
		}
	}
	all := &datadoghqv1alpha1.ExtendedDaemonSetReplicaSetList{}
	if err := c.List(context.TODO(), all); err != nil {
		t.Fatal(err)
	}
	if len(all.Items) != 1 {
		t.Errorf("%d replica sets exist for one template after two reconciles", len(all.Items))
	}
}
