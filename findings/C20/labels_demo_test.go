package utils

// Demonstration for the C20 finding (hand-written, run with `go test -overlay`): BuildInfoLabels looks the value up
// under the sanitised key, so every label whose key contains a character outside [a-zA-Z0-9_] (all the controller's own
// labels do) is exported with an empty value.

import (
	"testing"

	metav1 "k8s.io/apimachinery/pkg/apis/meta/v1"
)

func TestVerifFindingC20Labels(t *testing.T) {
	obj := &metav1.ObjectMeta{Labels: map[string]string{
		"extendeddaemonset.datadoghq.com/name": "foo",
		"plain":                                "bar",
	}}
	keys, values := BuildInfoLabels(obj)
	if len(keys) != 2 || len(values) != 2 {
		t.Fatalf("got %v %v", keys, values)
	}
	want := map[string]string{"extendeddaemonset_datadoghq_com_name": "foo", "plain": "bar"}
	for i, k := range keys {
		if values[i] != want[k] {
			t.Errorf("label %q exported with value %q, want %q", k, values[i], want[k])
		}
	}
}
