package extendeddaemonsetreplicaset

// Demonstration for the C12 finding (hand-written, run with `go test -overlay`): an ExtendedDaemonSet named "foo"
// in namespace "a" sees the pods of the ExtendedDaemonSet named "foo" in namespace "b".

import (
	"testing"

	corev1 "k8s.io/api/core/v1"
	metav1 "k8s.io/apimachinery/pkg/apis/meta/v1"
	"k8s.io/client-go/kubernetes/scheme"
	"sigs.k8s.io/controller-runtime/pkg/client/fake"

	datadoghqv1alpha1 "github.com/DataDog/extendeddaemonset/api/v1alpha1"
)

func TestVerifFindingC12(t *testing.T) {
	lbl := map[string]string{datadoghqv1alpha1.ExtendedDaemonSetNameLabelKey: "foo"}
	podA := &corev1.Pod{ObjectMeta: metav1.ObjectMeta{Name: "foo-a", Namespace: "a", Labels: lbl}}
	podB := &corev1.Pod{ObjectMeta: metav1.ObjectMeta{Name: "foo-b", Namespace: "b", Labels: lbl}}
	c := fake.NewClientBuilder().WithScheme(scheme.Scheme).WithObjects(podA, podB).Build()
	r := &Reconciler{client: c}
	list, err := r.getPodList(&datadoghqv1alpha1.ExtendedDaemonSet{ObjectMeta: metav1.ObjectMeta{Name: "foo", Namespace: "a"}})
	if err != nil {
		t.Fatal(err)
	}
	for _, p := range list.Items {
		if p.Namespace != "a" {
			t.Errorf("pod %s/%s of another ExtendedDaemonSet was listed for a/foo", p.Namespace, p.Name)
		}
	}
}
