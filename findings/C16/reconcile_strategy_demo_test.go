package extendeddaemonsetreplicaset

// Demonstrations (hand-written, run with `go test -overlay`) for two crashes of the replica-set reconciler that the safety sweep
// found once applyStrategy was verified instead of trusted:
//
//   (*Reconciler).Reconcile/pre/conditions.UpdateExtendedDaemonSetReplicaSetStatusCondition-0   (status != nil)
//     ManageDeployment returns early, with Result.NewStatus still nil, when maxUnavailable cannot be resolved (the CRD accepts
//     any string there); Reconcile then updated conditions on the nil status. Fixed by c771396.
//
//   (*Reconciler).applyStrategy/pre/strategy.ManageCanaryDeployment-1   (params.Strategy.Canary != nil)
//     the role of a replica set comes from the ExtendedDaemonSet status, the canary parameters from its spec; a sync that runs after
//     spec.strategy.canary was removed but before the status was updated dereferenced the nil canary strategy. Fixed by 5a5470d.
//
// Both tests panic before the fixes and pass after them.

import (
	"context"
	"testing"
	"time"

	metav1 "k8s.io/apimachinery/pkg/apis/meta/v1"
	"k8s.io/apimachinery/pkg/util/intstr"
	"k8s.io/client-go/kubernetes/scheme"
	"k8s.io/client-go/tools/record"
	"k8s.io/client-go/util/flowcontrol"
	testing2 "k8s.io/utils/clock/testing"
	"sigs.k8s.io/controller-runtime/pkg/client/fake"

	datadoghqv1alpha1 "github.com/DataDog/extendeddaemonset/api/v1alpha1"
	test "github.com/DataDog/extendeddaemonset/api/v1alpha1/test"
)

func verifFindingReconciler(t *testing.T, ds *datadoghqv1alpha1.ExtendedDaemonSet, rs *datadoghqv1alpha1.ExtendedDaemonSetReplicaSet) *Reconciler {
	t.Helper()
	s := scheme.Scheme
	s.AddKnownTypes(datadoghqv1alpha1.GroupVersion, &datadoghqv1alpha1.ExtendedDaemonSetReplicaSetList{}, &datadoghqv1alpha1.ExtendedDaemonSetReplicaSet{},
		&datadoghqv1alpha1.ExtendedDaemonSetList{}, &datadoghqv1alpha1.ExtendedDaemonSet{}, &datadoghqv1alpha1.ExtendedDaemonsetSettingList{}, &datadoghqv1alpha1.ExtendedDaemonsetSetting{})
	c := fake.NewClientBuilder().WithStatusSubresource(&datadoghqv1alpha1.ExtendedDaemonSet{}, &datadoghqv1alpha1.ExtendedDaemonSetReplicaSet{}).WithObjects(ds, rs).Build()

	return &Reconciler{client: c, scheme: s, recorder: record.NewFakeRecorder(10), log: testLogger,
		failedPodsBackOff: flowcontrol.NewFakeBackOff(30*time.Second, 15*time.Minute, testing2.NewFakeClock(time.Now()))}
}

func verifFindingRollingUpdate(maxUnavailable intstr.IntOrString) *datadoghqv1alpha1.ExtendedDaemonSetSpecStrategyRollingUpdate {
	one, zero := intstr.FromInt(1), intstr.FromInt(0)

	return &datadoghqv1alpha1.ExtendedDaemonSetSpecStrategyRollingUpdate{MaxUnavailable: &maxUnavailable, MaxPodSchedulerFailure: &zero, SlowStartAdditiveIncrease: &one,
		SlowStartIntervalDuration: &metav1.Duration{Duration: time.Minute}, MaxParallelPodCreation: datadoghqv1alpha1.NewInt32(1)}
}

// maxUnavailable "abc" is accepted by the CRD schema (int-or-string) and by ValidateExtendedDaemonSetSpec.
func TestVerifFindingStrategyErrorLeavesNoStatus(t *testing.T) {
	status := &datadoghqv1alpha1.ExtendedDaemonSetStatus{ActiveReplicaSet: "foo-1"}
	ds := datadoghqv1alpha1.DefaultExtendedDaemonSet(test.NewExtendedDaemonSet("but", "foo", &test.NewExtendedDaemonSetOptions{
		RollingUpdate: verifFindingRollingUpdate(intstr.FromString("abc")), Status: status}),
		datadoghqv1alpha1.ExtendedDaemonSetSpecStrategyCanaryValidationModeAuto)
	rs := test.NewExtendedDaemonSetReplicaSet("but", "foo-1", &test.NewExtendedDaemonSetReplicaSetOptions{OwnerRefName: "foo"})
	r := verifFindingReconciler(t, ds, rs)
	defer func() {
		if p := recover(); p != nil {
			t.Fatalf("Reconcile panicked: %v", p)
		}
	}()
	// the strategy error is recorded in the ReconcileError condition; what matters here is that the sync does not crash
	if _, err := r.Reconcile(context.TODO(), newRequest("but", "foo-1")); err != nil {
		t.Logf("reconcile returned error %v", err)
	}
}

// status still names foo-2 as the canary, but spec.strategy.canary has been removed.
func TestVerifFindingCanaryRoleWithoutCanaryStrategy(t *testing.T) {
	status := &datadoghqv1alpha1.ExtendedDaemonSetStatus{ActiveReplicaSet: "foo-1",
		Canary: &datadoghqv1alpha1.ExtendedDaemonSetStatusCanary{ReplicaSet: "foo-2", Nodes: []string{"node1"}}}
	ds := datadoghqv1alpha1.DefaultExtendedDaemonSet(test.NewExtendedDaemonSet("but", "foo", &test.NewExtendedDaemonSetOptions{
		RollingUpdate: verifFindingRollingUpdate(intstr.FromInt(1)), Status: status}),
		datadoghqv1alpha1.ExtendedDaemonSetSpecStrategyCanaryValidationModeAuto)
	if ds.Spec.Strategy.Canary != nil {
		t.Fatalf("test setup: the ExtendedDaemonSet must not have a canary strategy")
	}
	rs := test.NewExtendedDaemonSetReplicaSet("but", "foo-2", &test.NewExtendedDaemonSetReplicaSetOptions{OwnerRefName: "foo"})
	r := verifFindingReconciler(t, ds, rs)
	defer func() {
		if p := recover(); p != nil {
			t.Fatalf("Reconcile panicked: %v", p)
		}
	}()
	if _, err := r.Reconcile(context.TODO(), newRequest("but", "foo-2")); err != nil {
		t.Logf("reconcile returned error %v", err)
	}
}
