package extendeddaemonsetreplicaset

// Demonstration (hand-written, run with `go test -overlay`) for the obligation
//   (*Reconciler).Reconcile/nil/field-LastUpdateTime~4
// The "Delay pods creation" log statement reads lastPodDeletionCondition.LastUpdateTime although that condition may be
// absent: a replica set whose status carries a recent PodCreation condition but neither a PodDeletion nor a
// LastFullSync condition (e.g. written by hand or by another controller version) makes Reconcile panic.

import (
	"context"
	"testing"
	"time"

	corev1 "k8s.io/api/core/v1"
	metav1 "k8s.io/apimachinery/pkg/apis/meta/v1"
	"k8s.io/apimachinery/pkg/util/intstr"
	"k8s.io/client-go/kubernetes/scheme"
	"k8s.io/client-go/tools/record"
	"k8s.io/client-go/util/flowcontrol"
	testing2 "k8s.io/utils/clock/testing"
	"sigs.k8s.io/controller-runtime/pkg/client/fake"

	datadoghqv1alpha1 "github.com/DataDog/extendeddaemonset/api/v1alpha1"
	test "github.com/DataDog/extendeddaemonset/api/v1alpha1/test"
)

func TestVerifFindingReconcileNil(t *testing.T) {
	s := scheme.Scheme
	s.AddKnownTypes(datadoghqv1alpha1.GroupVersion, &datadoghqv1alpha1.ExtendedDaemonSetReplicaSetList{}, &datadoghqv1alpha1.ExtendedDaemonSetReplicaSet{},
		&datadoghqv1alpha1.ExtendedDaemonSetList{}, &datadoghqv1alpha1.ExtendedDaemonSet{}, &datadoghqv1alpha1.ExtendedDaemonsetSettingList{}, &datadoghqv1alpha1.ExtendedDaemonsetSetting{})
	one, zero := intstr.FromInt(1), intstr.FromInt(0)
	ru := &datadoghqv1alpha1.ExtendedDaemonSetSpecStrategyRollingUpdate{MaxUnavailable: &one, MaxPodSchedulerFailure: &zero, SlowStartAdditiveIncrease: &one,
		SlowStartIntervalDuration: &metav1.Duration{Duration: time.Minute}, MaxParallelPodCreation: datadoghqv1alpha1.NewInt32(1)}
	status := &datadoghqv1alpha1.ExtendedDaemonSetStatus{ActiveReplicaSet: "foo-1"}
	ds := datadoghqv1alpha1.DefaultExtendedDaemonSet(test.NewExtendedDaemonSet("but", "foo", &test.NewExtendedDaemonSetOptions{RollingUpdate: ru, Status: status}),
		datadoghqv1alpha1.ExtendedDaemonSetSpecStrategyCanaryValidationModeAuto)
	rs := test.NewExtendedDaemonSetReplicaSet("but", "foo-1", &test.NewExtendedDaemonSetReplicaSetOptions{OwnerRefName: "foo"})
	rs.Status.Conditions = []datadoghqv1alpha1.ExtendedDaemonSetReplicaSetCondition{{
		Type: datadoghqv1alpha1.ConditionTypePodCreation, Status: corev1.ConditionTrue,
		LastUpdateTime: metav1.Now(), LastTransitionTime: metav1.Now(),
	}}
	c := fake.NewClientBuilder().WithStatusSubresource(&datadoghqv1alpha1.ExtendedDaemonSet{}, &datadoghqv1alpha1.ExtendedDaemonSetReplicaSet{}).WithObjects(ds, rs).Build()
	r := &Reconciler{client: c, scheme: s, recorder: record.NewFakeRecorder(10), log: testLogger,
		failedPodsBackOff: flowcontrol.NewFakeBackOff(30*time.Second, 15*time.Minute, testing2.NewFakeClock(time.Now()))}
	defer func() {
		if p := recover(); p != nil {
			t.Fatalf("Reconcile panicked: %v", p)
		}
	}()
	if _, err := r.Reconcile(context.TODO(), newRequest("but", "foo-1")); err != nil {
		t.Logf("reconcile returned error %v", err)
	}
}
