package strategy

// Demonstration for the C03 finding (hand-written, run with `go test -overlay`, nothing is written to /repo).
//
// Ten targeted nodes, every node runs an outdated pod; two of them are not Ready, eight are Ready and therefore
// available; maxUnavailable = 2. Two nodes are already without an available pod (U = 2), so the sync may delete
// max(0, maxUnavailable - U) = 0 available pods and must spend its budget of two deletions on the two pods that are
// already unavailable. ManageDeployment takes a prefix of the outdated pods in the iteration order of its node map
// instead: most orders delete one or two available pods, which leaves up to four nodes without an available pod.

import (
	"fmt"
	"testing"
	"time"

	corev1 "k8s.io/api/core/v1"
	metav1 "k8s.io/apimachinery/pkg/apis/meta/v1"
	"k8s.io/apimachinery/pkg/util/intstr"
	"sigs.k8s.io/controller-runtime/pkg/client/fake"
	logf "sigs.k8s.io/controller-runtime/pkg/log"

	datadoghqv1alpha1 "github.com/DataDog/extendeddaemonset/api/v1alpha1"
	podutils "github.com/DataDog/extendeddaemonset/pkg/controller/utils/pod"
)

func TestVerifFindingC03UnavailableFirst(t *testing.T) {
	now := time.Now()
	metaNow := metav1.NewTime(now)
	ru := datadoghqv1alpha1.DefaultExtendedDaemonSetSpecStrategyRollingUpdate(&datadoghqv1alpha1.ExtendedDaemonSetSpecStrategyRollingUpdate{})
	two := intstr.FromInt(2)
	ru.MaxUnavailable = &two

	worst := 0
	for round := 0; round < 200; round++ {
		params := &Parameters{
			Logger:        logf.Log.WithName("c03"),
			NewStatus:     &datadoghqv1alpha1.ExtendedDaemonSetReplicaSetStatus{},
			Strategy:      &datadoghqv1alpha1.ExtendedDaemonSetSpecStrategy{RollingUpdate: *ru},
			PodByNodeName: map[*NodeItem]*corev1.Pod{},
			Replicaset: &datadoghqv1alpha1.ExtendedDaemonSetReplicaSet{
				ObjectMeta: metav1.ObjectMeta{Name: "rs-new", Namespace: "ns"},
				Spec:       datadoghqv1alpha1.ExtendedDaemonSetReplicaSetSpec{TemplateGeneration: "new"},
				Status: datadoghqv1alpha1.ExtendedDaemonSetReplicaSetStatus{Conditions: []datadoghqv1alpha1.ExtendedDaemonSetReplicaSetCondition{
					// the rolling update started long ago: pod creation is not what limits this sync
					{Type: datadoghqv1alpha1.ConditionTypeActive, Status: corev1.ConditionTrue, LastTransitionTime: metav1.NewTime(now.Add(-time.Hour))},
				}},
			},
		}
		for i := 0; i < 10; i++ {
			ready := corev1.ConditionTrue
			if i < 2 {
				ready = corev1.ConditionFalse
			}
			node := &NodeItem{Node: &corev1.Node{ObjectMeta: metav1.ObjectMeta{Name: fmt.Sprintf("node%d", i)}}}
			params.PodByNodeName[node] = &corev1.Pod{
				ObjectMeta: metav1.ObjectMeta{Name: fmt.Sprintf("pod%d", i), Namespace: "ns",
					Annotations: map[string]string{datadoghqv1alpha1.MD5ExtendedDaemonSetAnnotationKey: "old"}},
				Spec: corev1.PodSpec{NodeName: node.Node.Name},
				Status: corev1.PodStatus{Phase: corev1.PodRunning,
					Conditions: []corev1.PodCondition{{Type: corev1.PodReady, Status: ready}}},
			}
		}
		res, err := ManageDeployment(fake.NewClientBuilder().Build(), &datadoghqv1alpha1.ExtendedDaemonSet{}, params, metaNow)
		if err != nil {
			t.Fatal(err)
		}
		if len(res.PodsToDelete) > 2 {
			t.Fatalf("%d deletions with maxUnavailable 2", len(res.PodsToDelete))
		}
		availableDeleted := 0
		for _, n := range res.PodsToDelete {
			if podutils.IsPodAvailable(params.PodByNodeName[n], 0, metaNow) {
				availableDeleted++
			}
		}
		if availableDeleted > worst {
			worst = availableDeleted
		}
	}
	if worst > 0 {
		t.Errorf("two of ten nodes already lack an available pod and maxUnavailable is 2, so no available pod may be deleted; "+
			"one sync deleted %d available pod(s) while unavailable outdated pods were left in place (%d nodes unavailable afterwards)", worst, 2+worst)
	}
}
