package extendeddaemonset

// Demonstrations for the C15 findings (hand-written, run with `go test -overlay`).
//
// 1. Percent replicas: updateInstanceWithCurrentRS resolves spec.strategy.canary.replicas against the ExtendedDaemonSet's
//    desired count, selectNodes resolves it against the canary replica set's own desired count, which is 0 for a new
//    canary: "50%" of four nodes asks for two canary nodes, selectNodes wants 0, selects nothing and reports no error.
// 2. A previously selected node that no longer exists is kept in status.canary.nodes by selectNodes.

import (
	"testing"

	corev1 "k8s.io/api/core/v1"
	"k8s.io/apimachinery/pkg/util/intstr"
	"k8s.io/client-go/kubernetes/scheme"
	"sigs.k8s.io/controller-runtime/pkg/client/fake"

	datadoghqv1alpha1 "github.com/DataDog/extendeddaemonset/api/v1alpha1"
	"github.com/DataDog/extendeddaemonset/api/v1alpha1/test"
	commontest "github.com/DataDog/extendeddaemonset/pkg/controller/test"
)

func verifC15Nodes() []*corev1.Node {
	opts := &commontest.NewNodeOptions{Conditions: []corev1.NodeCondition{{Type: corev1.NodeReady, Status: corev1.ConditionTrue}}}
	return []*corev1.Node{commontest.NewNode("node1", opts), commontest.NewNode("node2", opts), commontest.NewNode("node3", opts), commontest.NewNode("node4", opts)}
}

func TestVerifFindingC15Percent(t *testing.T) {
	s := scheme.Scheme
	s.AddKnownTypes(datadoghqv1alpha1.GroupVersion, &datadoghqv1alpha1.ExtendedDaemonSet{})
	half := intstr.FromString("50%")
	eds := test.NewExtendedDaemonSet("bar", "foo", &test.NewExtendedDaemonSetOptions{
		Canary: &datadoghqv1alpha1.ExtendedDaemonSetSpecStrategyCanary{Replicas: &half},
		Status: &datadoghqv1alpha1.ExtendedDaemonSetStatus{ActiveReplicaSet: "foo-1", Desired: 4,
			Canary: &datadoghqv1alpha1.ExtendedDaemonSetStatusCanary{ReplicaSet: "foo-2", Nodes: []string{}}},
	})
	n := verifC15Nodes()
	r := &Reconciler{client: fake.NewClientBuilder().WithStatusSubresource(&corev1.Node{}).WithObjects(n[0], n[1], n[2], n[3]).Build(), scheme: s, log: testLogger}
	canary := &datadoghqv1alpha1.ExtendedDaemonSetStatusCanary{ReplicaSet: "foo-2", Nodes: []string{}}
	// the canary replica set was just created: its own status is still empty
	err := r.selectNodes(testLogger, eds, &eds.Spec, &datadoghqv1alpha1.ExtendedDaemonSetReplicaSet{}, canary)
	want, _ := intstr.GetValueFromIntOrPercent(&half, int(eds.Status.Desired), true)
	if err == nil && len(canary.Nodes) != want {
		t.Errorf("replicas 50%% of %d targeted nodes: %d canary nodes selected, want %d, and no error reported", eds.Status.Desired, len(canary.Nodes), want)
	}
}

func TestVerifFindingC15StaleNode(t *testing.T) {
	s := scheme.Scheme
	s.AddKnownTypes(datadoghqv1alpha1.GroupVersion, &datadoghqv1alpha1.ExtendedDaemonSet{})
	two := intstr.FromInt(2)
	eds := test.NewExtendedDaemonSet("bar", "foo", &test.NewExtendedDaemonSetOptions{
		Canary: &datadoghqv1alpha1.ExtendedDaemonSetSpecStrategyCanary{Replicas: &two},
		Status: &datadoghqv1alpha1.ExtendedDaemonSetStatus{ActiveReplicaSet: "foo-1", Desired: 4,
			Canary: &datadoghqv1alpha1.ExtendedDaemonSetStatusCanary{ReplicaSet: "foo-2", Nodes: []string{"gone"}}},
	})
	n := verifC15Nodes()
	r := &Reconciler{client: fake.NewClientBuilder().WithStatusSubresource(&corev1.Node{}).WithObjects(n[0], n[1], n[2], n[3]).Build(), scheme: s, log: testLogger}
	canary := &datadoghqv1alpha1.ExtendedDaemonSetStatusCanary{ReplicaSet: "foo-2", Nodes: []string{"gone"}}
	if err := r.selectNodes(testLogger, eds, &eds.Spec, &datadoghqv1alpha1.ExtendedDaemonSetReplicaSet{}, canary); err != nil {
		t.Fatal(err)
	}
	for _, name := range canary.Nodes {
		if name == "gone" {
			t.Errorf("status.canary.nodes = %v still names the node %q, which does not exist", canary.Nodes, name)
		}
	}
}
